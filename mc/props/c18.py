"""C18 -- stochastic models are reproducible from their seed and physically bounded."""
import hashlib
import math
import os

import numpy as np

from .. import engine, refmodel as rm
from .. import histories
from ..histories import t_callhist, t_cross      # worker tasks of the history harness (mc/histories.py)

PID = 'C18'
MOD = 'mc.props.c18'

FRAMES = {'4x4': (4, 4), '3x5': (3, 5), '16x16': (16, 16)}
LEVELS = [0, 0.5, 3, 50, 1e4, 5e9]
MODELS = ['shot-poisson', 'shot-gaussian', 'read', 'read-int', 'dark-fpn', 'dark-rule07', 'psd']


def dig(a):
    return hashlib.blake2b(np.ascontiguousarray(a).tobytes(), digest_size=8).hexdigest()


def psd_mask(shape):
    import lentil
    m = np.zeros(shape)
    m[1:-1, 1:-1] = 1
    m[shape[0] // 2, shape[1] // 2] = 0
    return m


def draw(model, shape, level, seed):
    import lentil
    if model == 'shot-poisson':
        return lentil.detector.shot_noise(np.full(shape, float(level)), method='poisson', seed=seed)
    if model == 'shot-gaussian':
        return lentil.detector.shot_noise(np.full(shape, float(level)), method='gaussian', seed=seed)
    if model == 'read':
        return lentil.detector.read_noise(np.full(shape, float(level)), electrons=max(level, 0.5), seed=seed)
    if model == 'read-int':        # the frame arrives as integer counts
        return lentil.detector.read_noise(np.full(shape, int(level), dtype=np.int64 if level > 60000 else np.uint16), electrons=max(level, 0.5), seed=seed)
    if model == 'dark-fpn':
        return lentil.detector.dark_current(rate=max(level, 0.5) * 10, shape=shape, fpn_factor=0.2, seed=seed)
    if model == 'dark-rule07':
        return lentil.detector.rule07_dark_current(150, 5e-6, 18e-6, shape=shape, fpn_factor=0.3, seed=seed)
    if model == 'psd':
        return lentil.power_spectrum(psd_mask(shape), pixelscale=1e-3, rms=max(level, 0.5) * 1e-9, half_power_freq=5, exp=3, seed=seed)
    raise ValueError(model)


def applicable(model, level):
    if model == 'shot-gaussian':
        return level >= 1000          # documented large-count regime
    return True


def chk_seed(case, acc, seed0):
    """one (model, frame, level, seed): deterministic, independent of and invisible to the global generator, support"""
    model, fname, level, seed = case['model'], case['frame'], case['level'], case['seed']
    shape = FRAMES[fname]
    sq = 'square' if shape[0] == shape[1] else 'non-square'
    try:
        np.random.seed(12345)
        st0 = np.random.get_state()
        a = np.asarray(draw(model, shape, level, seed))
        st1 = np.random.get_state()
        np.random.seed(999)
        np.random.rand(7)
        b = np.asarray(draw(model, shape, level, seed))
    except Exception as e:
        acc.violation(f'{model}:raises:{type(e).__name__}:{sq}', case, repr(e))
        acc.case(case, outcome='raise')
        return None
    if a.shape != shape:
        acc.violation(f'{model}:shape', case, f'{a.shape} != {shape}')
    if not np.array_equal(a, b):
        acc.violation(f'{model}:not-reproducible', case, 'same arguments and seed give different draws (depends on the global random state?)')
    if not all(np.array_equal(x, y) for x, y in zip(st0, st1) if isinstance(x, np.ndarray)) or st0[2:] != st1[2:]:
        acc.violation(f'{model}:global-state-advanced', case, 'the global numpy random state changed during a seeded call')
    if model.startswith('shot'):
        if np.any(a < 0) or not np.array_equal(a, np.floor(a)):
            acc.violation(f'{model}:support', case, 'shot noise draw is negative or not integer-valued')
    if model.startswith('dark'):
        if np.any(a < 0) or not np.array_equal(a, np.floor(a)) or not np.all(np.isfinite(a)):
            acc.violation(f'{model}:support', case, 'dark frame negative / non-integer / non-finite')
    if model == 'psd':
        m = psd_mask(shape)
        if np.any(a[m == 0] != 0):
            acc.violation('psd:nonzero-off-mask', case, 'surface error is non-zero outside the mask')
        rms = math.sqrt(np.mean(a[m != 0] ** 2))
        want = max(level, 0.5) * 1e-9
        if abs(rms - want) > 1e-12 * want * 1e3:
            acc.violation(f'psd:rms:{sq}', case, f'RMS over the mask {rms} != requested {want}')
    acc.cls(f'{model}:{sq}')
    acc.case(case, outcome=f'{model}-{sq}')
    return a


def t_model(arg, acc):
    tier, seed0, model = arg['tier'], arg['seed'], arg['model']
    nseeds = 64 if tier == 'quick' else 512
    for fname, shape in FRAMES.items():
        for level in LEVELS:
            if not applicable(model, level):
                continue
            if model in ('dark-rule07',) and level != LEVELS[0]:
                continue
            acc.states += 1
            draws = []
            for s in range(nseeds):
                acc.transitions += 1
                a = chk_seed({'kind': 'seed', 'model': model, 'frame': fname, 'level': level, 'seed': s}, acc, seed0)
                if a is None:
                    break
                draws.append(a)
            if len(draws) < nseeds:
                continue
            sub = {'kind': 'agg', 'model': model, 'frame': fname, 'level': level, 'nseeds': nseeds}
            X = np.array(draws, dtype=float)
            N = X.size
            # different seeds, different draws (non-degenerate cases only)
            degenerate = (model.startswith('shot') and level < 3) or (shape[0] * shape[1] < 16 and level < 3)
            if not degenerate:
                nd = len({dig(d) for d in draws})
                if nd != nseeds:
                    acc.violation(f'{model}:seeds-collide', sub, f'{nseeds} seeds give only {nd} distinct draws')
                acc.cls('seed-pairs', nseeds * (nseeds - 1) // 2)
            # moments over all enumerated seeds (deterministic given the seeds); 6 sigma of the estimator
            if model.startswith('shot'):
                lam = float(level)
                mean, var = X.mean(), X.var()
                se_mean = math.sqrt(max(lam, 1e-12) / N)
                if abs(mean - lam) > 6 * se_mean + (0.5 if model == 'shot-gaussian' else 0):
                    acc.violation(f'{model}:mean', sub, f'mean {mean} vs signal {lam} (6 sigma = {6 * se_mean:.3g})')
                if lam > 0:
                    se_var = math.sqrt((lam + 3 * lam * lam - lam * lam) / N) if lam else 0      # var of sample variance (Poisson: mu4 = lam + 3 lam^2)
                    if abs(var - lam) > 6 * se_var + (1.0 if model == 'shot-gaussian' else 0):
                        acc.violation(f'{model}:variance', sub, f'variance {var} vs signal {lam} (6 sigma = {6 * se_var:.3g})')
            if model in ('read', 'read-int'):
                sig = max(level, 0.5)
                noise = X - (level if model == 'read' else int(level))
                if abs(noise.mean()) > 6 * sig / math.sqrt(N):
                    acc.violation(f'{model}:mean', sub, f'read noise mean {noise.mean()} (6 sigma = {6 * sig / math.sqrt(N):.3g})')
                if abs(noise.std() - sig) > 6 * sig / math.sqrt(2 * N):
                    acc.violation(f'{model}:std', sub, f'read noise std {noise.std()} vs {sig}')
            acc.case(sub, outcome=f'{model}-agg')


REFUSED = {
    'none': None,
    'psd-seed-negative': lambda L: L.power_spectrum(psd_mask((6, 6)), pixelscale=1e-3, rms=1e-9, half_power_freq=5, exp=3, seed=-1),
    'psd-seed-float': lambda L: L.power_spectrum(psd_mask((6, 6)), pixelscale=1e-3, rms=1e-9, half_power_freq=5, exp=3, seed=1.5),
    'psd-mask-1d': lambda L: L.power_spectrum(np.ones(6), pixelscale=1e-3, rms=1e-9, half_power_freq=5, exp=3, seed=1),
    'psd-mask-3d': lambda L: L.power_spectrum(np.ones((2, 6, 6)), pixelscale=1e-3, rms=1e-9, half_power_freq=5, exp=3, seed=1),
    'shot-negative': lambda L: L.detector.shot_noise(np.array([[1.0, -2.0]]), method='gaussian', seed=1),
    'shot-negative-poisson': lambda L: L.detector.shot_noise(np.array([[1.0, -2.0]]), method='poisson', seed=1),
    'shot-method': lambda L: L.detector.shot_noise(np.ones((2, 2)), method='bogus', seed=1),
    'read-seed': lambda L: L.detector.read_noise(np.ones((2, 2)), 3.0, seed=-4),
    'dark-seed': lambda L: L.detector.dark_current(3.0, shape=(2, 2), fpn_factor=0.1, seed=-4),
    'cosmic-shape': lambda L: L.detector.cosmic_rays((4,), (5e-6, 5e-6, 5e-6), ts=1.0),
}


def chk_reject(case, acc, seed):
    import lentil
    import warnings
    after = case.get('after', 'none')
    if REFUSED[after] is not None:
        # a call the library refuses (or not) comes first: what follows must not depend on it
        err0 = np.geterr()
        try:
            REFUSED[after](lentil)
            acc.cls('prior-call-accepted')
        except Exception:
            acc.cls('prior-call-refused')
    err_before = np.geterr()
    try:
        _reject_body(case, acc, seed, lentil)
    finally:
        np.seterr(**err_before if REFUSED[after] is None else err0)      # whatever the prior call left behind ends with this case


def _reject_body(case, acc, seed, lentil):
    for method in ('poisson', 'gaussian'):
        for bad, why in ((np.array([[1.0, -2.0]]), 'negative'), (np.array([[1e19, 5.0]]), 'too-large'), (np.array([[2500.0, -4e-9]]), 'negative'),
                         (np.array([[-1e-12, 3.0], [3.0, 3.0]]), 'negative'), (-1e-9, 'negative'), (np.array([[7, -1]]), 'negative')):
            if method == 'gaussian' and why == 'too-large':
                continue
            try:
                lentil.detector.shot_noise(bad, method=method, seed=3)
                acc.violation(f'shot-{method}:{why}-accepted', dict(case, method=method, why=why, signal=repr(bad)), f'{why} signal {bad!r} accepted')
            except ValueError:
                pass
            except Exception as e:
                acc.violation(f'shot-{method}:{why}-wrong-exception', dict(case, method=method, why=why), repr(e))
    # dark frame without pattern noise equals floor(rate)
    for rate in (0, 0.4, 1, 2.5, 17.999, 1e4 + 0.5, 99.999999, 4095.9999, 123456789.0, 4e9 + 1, 2.0 ** 40 + 1.5, 7, np.float32(2.5), np.int64(2 ** 31 + 1)):
        for shape in ((4, 4), (3, 5), 1):
            d = np.asarray(lentil.detector.dark_current(rate, shape=shape))
            if not np.all(np.asarray(d, dtype=np.float64) == float(math.floor(rate))) or (shape != 1 and d.shape != shape):
                acc.violation('dark:no-fpn', dict(case, rate=rate, shape=shape), f'dark frame {d.ravel()[:3]} != floor({rate})')
            d2 = np.asarray(lentil.detector.dark_current(rate, shape=shape, fpn_factor=0, seed=5))
            if not np.array_equal(d, d2):
                acc.violation('dark:no-fpn-seed', dict(case, rate=rate, shape=shape), 'seed changes a frame without pattern noise')
    # requested RMS at the ends of the representable range: zero gives a zero map, tiny values are delivered exactly
    for rms in (0.0, 1e-200, 1e-160, 1e-30, 1.0, 1e150):
        for shape in ((6, 6), (5, 9)):
            m = psd_mask(shape)
            sub = dict(case, rms=rms, shape=shape)
            try:
                o = np.asarray(lentil.power_spectrum(m, pixelscale=1e-3, rms=rms, half_power_freq=5, exp=3, seed=4))
            except Exception as e:
                acc.violation(f'psd:rms-extreme:raises:{type(e).__name__}', sub, repr(e))
                continue
            if not np.all(np.isfinite(o)) or np.any(o[m == 0] != 0):
                acc.violation('psd:rms-extreme:support', sub, f'requested rms {rms}: non-finite map or non-zero outside the mask')
                continue
            got = math.sqrt(float(np.sum((o[m != 0] / (rms or 1.0)) ** 2)) / np.count_nonzero(m)) * (rms or 1.0)
            if (rms == 0 and np.any(o != 0)) or (rms > 0 and abs(got / rms - 1) > 1e-9):
                acc.violation('psd:rms-extreme:value', sub, f'requested rms {rms}, delivered {got}')
            acc.cls('psd-rms-extreme')
    acc.cls('rejections')
    acc.case(case, outcome='reject')


def chk_big_seeds(case, acc, seed):
    """seeds are not taken modulo anything the caller can see: seeds that differ by 2^32, 2^33 (and sequences that do) differ"""
    import lentil
    shape = (6, 7)
    fns = {'dark': lambda s: lentil.detector.dark_current(20.5, shape=shape, fpn_factor=0.2, seed=s),
           'rule07': lambda s: lentil.detector.rule07_dark_current(150, 5e-6, 18e-6, shape=shape, fpn_factor=0.3, seed=s),
           'read': lambda s: lentil.detector.read_noise(np.full(shape, 10.0), 3.0, seed=s),
           'shot': lambda s: lentil.detector.shot_noise(np.full(shape, 50.0), seed=s),
           'psd': lambda s: lentil.power_spectrum(psd_mask(shape), pixelscale=1e-3, rms=1e-9, half_power_freq=5, exp=3, seed=s)}
    seeds = [7, 2 ** 32 + 7, 2 ** 33 + 7, 2 ** 64 + 7, [5, 6], [2 ** 32 + 5, 6], [5, 2 ** 32 + 6]]
    for name, fn in fns.items():
        try:
            d = [dig(np.asarray(fn(s))) for s in seeds]
        except Exception as e:
            acc.violation(f'{name}:large-seed:raises:{type(e).__name__}', dict(case, model=name), repr(e))
            continue
        if len(set(d)) != len(seeds):
            k = [i for i in range(len(seeds)) if d.index(d[i]) != i][0]
            acc.violation(f'{name}:seeds-collide:large', dict(case, model=name), f'seeds {seeds[d.index(d[k])]} and {seeds[k]} give the same draw')
    acc.cls('large-seeds')
    acc.case(case, outcome='big-seeds')


def chk_processes(case, acc, seed):
    """a seeded draw is a function of its arguments and seed in every interpreter: two fresh processes with different string-hash
    salts (PYTHONHASHSEED) give the draw this process gives"""
    import subprocess
    import sys
    code = ('import sys, os, json, hashlib; sys.path.insert(0, os.environ["LENTIL_SRC_"]); import numpy as np, lentil\n'
            'h = lambda a: hashlib.blake2b(np.ascontiguousarray(a).tobytes(), digest_size=8).hexdigest()\n'
            'm = np.zeros((6, 7)); m[1:-1, 1:-1] = 1; m[3, 3] = 0\n'
            'out = {"read": h(lentil.detector.read_noise(np.full((6, 7), 10.0), 3.0, seed=11)), "shot": h(lentil.detector.shot_noise(np.full((6, 7), 50.0), seed=11)),'
            ' "dark": h(lentil.detector.dark_current(20.5, shape=(6, 7), fpn_factor=0.2, seed=11)), "psd": h(lentil.power_spectrum(m, pixelscale=1e-3, rms=1e-9, half_power_freq=5, exp=3, seed=11)),'
            ' "gauss": h(lentil.detector.shot_noise(np.full((6, 7), 5000.0), method="gaussian", seed=11))}\n'
            'print(json.dumps(out))')
    import json as _json
    outs = []
    for salt in ('1', '2'):
        env = dict(os.environ, PYTHONHASHSEED=salt, LENTIL_SRC_=engine.LENTIL_SRC)
        r = subprocess.run([sys.executable, '-W', 'ignore', '-c', code], capture_output=True, text=True, env=env, timeout=120)
        if r.returncode != 0:
            acc.violation('process:raises', dict(case, salt=salt), r.stderr[-300:])
            return
        outs.append(_json.loads(r.stdout.strip().splitlines()[-1]))
    for k in outs[0]:
        if outs[0][k] != outs[1][k]:
            acc.violation(f'{k}:differs-between-processes', dict(case, model=k), f'the seeded {k} draw differs between two interpreter processes (string-hash salts 1 and 2)')
    acc.cls('processes')
    acc.case(case, outcome='processes')


def chk_cosmic(case, acc, seed):
    import lentil
    k, shape, ps = case['state'], tuple(case['shape']), tuple(case['pixelscale'])
    np.random.seed(k)
    try:
        f = lentil.detector.cosmic_rays(shape, ps, ts=case['ts'])
    except Exception as e:
        acc.violation(f'cosmic:raises:{type(e).__name__}', case, repr(e))
        return
    if f.shape != shape:
        acc.violation('cosmic:shape', case, f'{f.shape}')
    if not np.all(np.isfinite(f)) or np.any(f < 0):
        acc.violation('cosmic:support', case, f'non-finite or negative values (min {np.nanmin(f)})')
    np.random.seed(k)
    g = lentil.detector.cosmic_rays(shape, ps, ts=case['ts'])
    if not np.array_equal(f, g):
        acc.violation('cosmic:not-a-function-of-the-random-state', case, 'same global state, different frame')
    acc.cls('cosmic-hit' if f.any() else 'cosmic-empty')
    acc.case(case, outcome='cosmic')


def chk_history(case, acc, seed):
    """a deterministic function of its arguments and seed: the same call, cold and after a call that differs in one
    argument, gives the same draw (the library's module state is reset before each arm)"""
    import lentil
    shape = FRAMES[case['frame']]
    mask = psd_mask(shape)
    base = dict(mask=mask, pixelscale=1e-3, rms=1e-9, half_power_freq=5, exp=3, seed=case['seed'])
    for other in (dict(pixelscale=0.25), dict(half_power_freq=2), dict(exp=2), dict(rms=3e-9), dict(seed=case['seed'] + 1)):
        engine.reset_library_state()
        cold = np.asarray(lentil.power_spectrum(**base))
        engine.reset_library_state()
        lentil.power_spectrum(**dict(base, **other))
        warm = np.asarray(lentil.power_spectrum(**base))
        if not np.array_equal(cold, warm):
            acc.violation('psd:history-dependent', dict(case, other=list(other)),
                          f'power_spectrum returns a different map after a call that differs in {list(other)} (max diff {np.max(np.abs(cold - warm)):.3e})')
        acc.transitions += 1
    for fn, kw, alt in ((lentil.detector.dark_current, dict(rate=20.5, shape=shape, fpn_factor=0.2, seed=case['seed']), dict(rate=3.0)),
                        (lentil.detector.dark_current, dict(rate=20.5, shape=shape, fpn_factor=0.2, seed=case['seed']), dict(fpn_factor=0.5)),
                        (lentil.detector.read_noise, dict(img=np.full(shape, 7.0), electrons=3.0, seed=case['seed']), dict(electrons=9.0)),
                        (lentil.detector.shot_noise, dict(img=np.full(shape, 50.0), seed=case['seed']), dict(img=np.full(shape, 5.0)))):
        engine.reset_library_state()
        cold = np.asarray(fn(**kw))
        engine.reset_library_state()
        fn(**dict(kw, **alt))
        warm = np.asarray(fn(**kw))
        if not np.array_equal(cold, warm):
            acc.violation(f'{fn.__name__}:history-dependent', dict(case, other=list(alt)), 'result depends on a preceding call')
        # the caller owns the returned frame: editing it in place must not change what the next identical call returns
        first = fn(**kw)
        keep = np.array(first, copy=True)
        try:
            np.asarray(first)[...] = -7
        except (ValueError, TypeError):
            pass
        again = np.asarray(fn(**kw))
        if not np.array_equal(again, keep):
            acc.violation(f'{fn.__name__}:returned-frame-is-shared', dict(case, other='edit-in-place'),
                          'after the caller edited the returned frame in place, the same call returns the edited frame')
        acc.transitions += 1
    acc.cls('history')
    acc.case(case, outcome='history')


DISPATCH = {'bigseeds': chk_big_seeds, 'processes': chk_processes, 'seed': chk_seed, 'reject': chk_reject, 'cosmic': chk_cosmic, 'history': chk_history}


DISPATCH['histop'] = histories.chk_case

def t_one(arg, acc):
    DISPATCH[arg['case']['kind']](arg['case'], acc, arg['seed'])


def t_cosmic(arg, acc):
    n = 64 if arg['tier'] == 'quick' else 512
    for shape in ((8, 8), (6, 10), (12, 5)):
        for ps in ((5e-6, 5e-6, 3e-6), (4e-6, 8e-6, 3e-6)):
            for ts in (1e3, 2e5):
                acc.states += 1
                for k in range(arg['lo'], min(arg['lo'] + 16, n)):
                    acc.transitions += 1
                    chk_cosmic({'kind': 'cosmic', 'state': k, 'shape': shape, 'pixelscale': ps, 'ts': ts}, acc, arg['seed'])


def run(tier, seed, acc, procs=None):
    tasks = [('t_model', {'tier': tier, 'seed': seed, 'model': m}) for m in MODELS]
    n = 64 if tier == 'quick' else 512
    for lo in range(0, n, 16):
        tasks.append(('t_cosmic', {'tier': tier, 'seed': seed, 'lo': lo}))
    acc.states += 1
    tasks.append(('t_one', {'seed': seed, 'case': {'kind': 'bigseeds'}}))
    tasks.append(('t_one', {'seed': seed, 'case': {'kind': 'processes'}}))
    for after in REFUSED:
        tasks.append(('t_one', {'seed': seed, 'case': {'kind': 'reject', 'after': after}}))
    for fname in FRAMES:
        for sd in (0, 1, 5):
            tasks.append(('t_one', {'seed': seed, 'case': {'kind': 'history', 'frame': fname, 'seed': sd}}))
    tasks += histories.tasks_for(PID, seed)        # pairwise call histories over the operations this property is anchored in
    engine.run_parallel(MOD, tasks, acc, procs)
    return {
        'rule': f'seeds 0..{n - 1} x frames (4x4, 3x5, 16x16) x levels (0, 1/2, 3, 50, 1e4) x 6 seeded models: same seed -> identical '
                'under two different global RNG states, global state not advanced, all seeds distinct on non-degenerate frames, support, '
                'moments aggregated over all enumerated seeds within 6 sigma of the estimator; dark frame without pattern noise == '
                f'floor(rate); PSD surface error zero off-mask with exactly the requested RMS on square and non-square masks; cosmic_rays '
                f'for np.random.seed(0..{n - 1}) x 3 shapes x 2 pixel sizes x 2 integration times.',
        'bounds': {'seeds': n, 'frames': list(FRAMES), 'levels': LEVELS, 'models': MODELS},
        'assumptions': ['"every seed / every random state" is decided only for the enumerated range',
                        'moment claims are sample statistics with 6-sigma bounds (deterministic for the enumerated seeds), not distributional proofs',
                        'Gaussian shot noise only in its documented large-count regime (>= 1000 counts)'],
        'require': {'psd:non-square': 50, 'psd:square': 50, 'shot-poisson:square': 100, 'read:non-square': 50, 'seed-pairs': 1000,
                    'rejections': 10, 'history': 9, 'psd-rms-extreme': 100, 'large-seeds': 1, 'processes': 1},
        'expect': {'cosmic-hit': 20, 'prior-call-refused': 8},
    }


def replay(case, acc):
    if case.get('kind') == 'histop':
        import os as _os
        return histories.chk_case(case, acc, int(_os.environ.get('VERIF_SEED', '0') or 0))
    seed = int(os.environ.get('VERIF_SEED', '0') or 0)
    if case['kind'] == 'agg':
        t_model({'tier': 'quick' if case['nseeds'] == 64 else 'thorough', 'seed': seed, 'model': case['model']}, acc)
    else:
        DISPATCH[case['kind']](case, acc, seed)
