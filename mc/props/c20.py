"""C20 -- array-geometry helpers share one centre convention (index floor(n/2))."""
import itertools
import math
import os
from fractions import Fraction as Fr

import numpy as np

from .. import engine, refmodel as rm
from .. import histories
from ..histories import t_callhist, t_cross      # worker tasks of the history harness (mc/histories.py)

PID = 'C20'
MOD = 'mc.props.c20'


def ids(shape):
    return (np.arange(int(np.prod(shape))) + 1).reshape(shape).astype(float)


def pad_model(a, S):
    """zero-pad / crop keeping index floor(n/2) at index floor(S/2) on the two last axes"""
    n0, n1 = a.shape[-2:]
    out = np.zeros(a.shape[:-2] + tuple(S), dtype=a.dtype)
    for i in range(S[0]):
        for j in range(S[1]):
            si, sj = i - S[0] // 2 + n0 // 2, j - S[1] // 2 + n1 // 2
            if 0 <= si < n0 and 0 <= sj < n1:
                out[..., i, j] = a[..., si, sj]
    return out


def chk_pad(case, acc, seed):
    import lentil
    n, depth = tuple(case['n']), case['depth']
    a = ids(n) if depth == 0 else ids((depth,) + n)
    smax = case['smax']
    for S in itertools.product(range(1, smax + 1), repeat=2):
        sub = dict(case, S=S)
        acc.transitions += 1
        a0 = a.copy()
        try:
            got = lentil.pad(a, S)
        except Exception as e:
            kind = 'cube' if depth else '2d'
            acc.violation(f'pad:{kind}:raises:{type(e).__name__}:{"square" if n[0] == n[1] else "non-square"}', sub, repr(e))
            continue
        exp = pad_model(a, S)
        if got.shape != exp.shape or not np.array_equal(got, exp):
            axis = []
            for k in (0, 1):
                if n[k] != S[k]:
                    axis.append(('grow' if S[k] > n[k] else 'crop') + ':' + ('odd' if n[k] % 2 else 'even') + '->' + ('odd' if S[k] % 2 else 'even'))
            acc.violation(f'pad:{"cube" if depth else "2d"}:origin:{"|".join(sorted(set(axis)))}', sub,
                          f'pad({n} -> {S}) does not keep the sample at index floor(n/2) at index floor(S/2)')
        # growing then cropping back is the identity
        if S[0] >= n[0] and S[1] >= n[1]:
            back = lentil.pad(got, n)
            if back.shape != a.shape or not np.array_equal(back, a0):
                acc.violation(f'pad:{"cube" if depth else "2d"}:roundtrip', sub, 'pad then crop back is not the identity')
        if not np.array_equal(a, a0):
            acc.violation('pad:input-mutated', sub, 'input modified')
        # window(shape=) is the same operation
        w = lentil.window(a, shape=S)
        if a.size > 1 and not np.array_equal(w, exp):     # a single value is documented to be returned as is
            acc.violation('window:shape', sub, 'window(img, shape) differs from the centred pad/crop')
    acc.cls('pad:cube' if depth else 'pad:2d')
    acc.case(case, outcome=f'pad-{depth}')


def stencil_masks(shape, sub_bits, pos):
    m = np.zeros(shape)
    for k in range(9):
        if sub_bits >> k & 1:
            m[pos[0] + k // 3, pos[1] + k % 3] = 1
    return m


def chk_stencil(case, acc, seed):
    import lentil
    import lentil.helper as lh
    shape, pos = tuple(case['shape']), tuple(case['pos'])
    for bits in range(1, 512):
        acc.transitions += 1
        m = stencil_masks(shape, bits, pos)
        sub = dict(case, bits=bits)
        pts = np.argwhere(m > 0)
        r0, c0 = pts.min(0); r1, c1 = pts.max(0)
        b = tuple(int(x) for x in lentil.boundary(m))
        if b != (r0, r1, c0, c1):
            acc.violation('boundary:value', sub, f'boundary={b} != {(r0, r1, c0, c1)}')
        # weights and threshold
        b2 = tuple(int(x) for x in lentil.boundary(m * 0.3 + (m > 0) * 0.0, threshold=0.1))
        if b2 != (r0, r1, c0, c1):
            acc.violation('boundary:threshold', sub, f'{b2}')
        for padv in (0, 1, (2, 0)):
            s = lh.boundary_slice(m, pad=padv)
            pr, pc = (padv, padv) if np.ndim(padv) == 0 else padv
            exp = (slice(max(r0 - pr, 0), min(r1 + pr + 1, shape[0])), slice(max(c0 - pc, 0), min(c1 + pc + 1, shape[1])))
            got = (slice(int(s[0].start), int(s[0].stop)), slice(int(s[1].start), int(s[1].stop)))
            if got != exp:
                acc.violation('boundary_slice:value', dict(sub, pad=padv), f'{got} != {exp}')
            off = lh.slice_offset(s, shape)
            hh, ww = exp[0].stop - exp[0].start, exp[1].stop - exp[1].start
            eoff = (exp[0].start + hh // 2 - shape[0] // 2, exp[1].start + ww // 2 - shape[1] // 2)
            if tuple(int(o) for o in off) != eoff:
                acc.violation('slice_offset:value', dict(sub, pad=padv), f'{off} != {eoff}')
            # consistency with subarray: extracting the slice's shape at its offset gives the slice
            try:
                sa = lentil.subarray(ids(shape), (hh, ww), shift=eoff)
                if not np.array_equal(sa, ids(shape)[exp]):
                    acc.violation('subarray:vs-slice', dict(sub, pad=padv), 'subarray(shape, shift=slice_offset) differs from the slice')
            except Exception as e:
                acc.violation(f'subarray:raises:{type(e).__name__}', dict(sub, pad=padv), repr(e))
        # centroid in exact arithmetic
        cr = Fr(int(pts[:, 0].sum()), len(pts)); cc = Fr(int(pts[:, 1].sum()), len(pts))
        g = lentil.centroid(m)
        if abs(g[0] - float(cr)) > 1e-12 or abs(g[1] - float(cc)) > 1e-12:
            acc.violation('centroid:value', sub, f'{g} != ({float(cr)}, {float(cc)})')
        wts = m * (1 + np.arange(m.size).reshape(shape) % 4)
        sw = wts.sum()
        gw = lentil.centroid(wts)
        ew = (float((wts * np.arange(shape[0])[:, None]).sum() / sw), float((wts * np.arange(shape[1])[None, :]).sum() / sw))
        if abs(gw[0] - ew[0]) > 1e-12 or abs(gw[1] - ew[1]) > 1e-12:
            acc.violation('centroid:weighted', sub, f'{gw} != {ew}')
        # samples of both signs (non-zero total): still the first moment over the plain sum
        sgn = m * np.where((np.arange(m.size).reshape(shape) % 3) == 1, -1.0, 2.0) * (1 + np.arange(m.size).reshape(shape) % 2)
        ssum = sgn.sum()
        if abs(ssum) >= 1:
            gs = lentil.centroid(sgn)
            es = (float((sgn * np.arange(shape[0])[:, None]).sum() / ssum), float((sgn * np.arange(shape[1])[None, :]).sum() / ssum))
            if abs(gs[0] - es[0]) > 1e-9 or abs(gs[1] - es[1]) > 1e-9:
                acc.violation('centroid:signed', sub, f'{gs} != sum(i * img) / sum(img) = {es} for an image with negative samples')
            if (sgn < 0).any():
                acc.cls('centroid:signed')
    # "everything" slices: the whole array sits at offset (0, 0)
    for sl in (Ellipsis, (slice(0, shape[0]), slice(0, shape[1]))):
        try:
            off = tuple(int(o) for o in lh.slice_offset(sl, shape))
        except Exception as e:
            acc.violation(f'slice_offset:everything:raises:{type(e).__name__}', dict(case, slice=repr(sl)), repr(e))
            continue
        if off != (0, 0):
            acc.violation('slice_offset:everything', dict(case, slice=repr(sl)), f'slice_offset({sl!r}, {shape}) = {off}, the whole array has offset (0, 0)')
    acc.cls('stencil')
    acc.case(case, outcome='stencil')


def chk_subarray(case, acc, seed):
    import lentil
    A = tuple(case['A'])
    a = ids(A)
    for s in itertools.product(range(1, A[0] + 1), range(1, A[1] + 1)):
        for shift in itertools.product(range(-3, 4), repeat=2):
            acc.transitions += 1
            r0 = A[0] // 2 - s[0] // 2 + shift[0]
            c0 = A[1] // 2 - s[1] // 2 + shift[1]
            inside = r0 >= 0 and c0 >= 0 and r0 + s[0] <= A[0] and c0 + s[1] <= A[1]
            sub = dict(case, s=s, shift=shift)
            try:
                got = lentil.subarray(a, s, shift)
                if not inside:
                    acc.violation('subarray:outside-accepted', sub, 'window outside the array accepted')
                elif not np.array_equal(got, a[r0:r0 + s[0], c0:c0 + s[1]]):
                    acc.violation('subarray:value', sub, 'wrong window')
                # same as the centred crop when not shifted
                if inside and shift == (0, 0) and not np.array_equal(got, pad_model(a, s)):
                    acc.violation('subarray:vs-pad', sub, 'subarray and pad disagree on the centre')
            except ValueError:
                if inside:
                    acc.violation('subarray:inside-refused', sub, 'legal window refused')
    acc.cls('subarray')
    acc.case(case, outcome='subarray')


def chk_rebin(case, acc, seed):
    import lentil
    f, tiles, depth = case['factor'], tuple(case['tiles']), case['depth']
    shape = (tiles[0] * f, tiles[1] * f)
    a = rm.generic_real(shape if depth == 0 else (depth,) + shape, seed, tag=5, lo=0, hi=4)
    got = lentil.rebin(a, f)
    exp = np.zeros(a.shape[:-2] + tiles)
    for i in range(tiles[0]):
        for j in range(tiles[1]):
            exp[..., i, j] = a[..., i * f:(i + 1) * f, j * f:(j + 1) * f].sum((-1, -2))
    if got.shape != exp.shape or rm.maxerr(got, exp) > 1e-12:
        acc.violation(f'rebin:{"cube" if depth else "2d"}:value', case, 'rebin is not the block sum')
    if abs(got.sum() - a.sum()) > 1e-10:
        acc.violation('rebin:sum', case, 'rebin does not preserve the sum')
    # a shape that is not a whole number of bins: refused, or -- whatever is returned -- the sum is preserved
    if f > 1:
        for extra in ((1, 0), (0, 1), (f - 1, 1)):
            b = rm.generic_real((shape[0] + extra[0], shape[1] + extra[1]) if depth == 0 else (depth, shape[0] + extra[0], shape[1] + extra[1]), seed, tag=6, lo=0.5, hi=4)
            b[..., -1, :] += 5
            b[..., :, -1] += 7
            try:
                gb = np.asarray(lentil.rebin(b, f))
            except Exception:
                acc.cls('rebin:non-divisible-refused')
                continue
            if abs(gb.sum() - b.sum()) > 1e-9:
                acc.violation('rebin:non-divisible:sum', dict(case, shape=list(b.shape)), f'rebin of a {b.shape} array by {f} returns a sum of {gb.sum()} for an input sum of {b.sum()}')
    acc.cls('rebin')
    acc.case(case, outcome='rebin')


# ---- drawn shapes ------------------------------------------------------------------------------------------
def draw(kind, shape, p, shift, antialias):
    import lentil
    if kind == 'circle':
        return lentil.circle(shape, p, shift=shift, antialias=antialias)
    if kind == 'hexagon':
        return lentil.hexagon(shape, p, shift=shift, antialias=antialias)
    if kind == 'hexagon-rot':
        return lentil.hexagon(shape, p, shift=shift, rotate=True, antialias=antialias)
    if kind == 'rectangle':
        return lentil.rectangle(shape, p[0], p[1], shift=shift, antialias=antialias)
    if kind == 'rectangle-30':
        return lentil.rectangle(shape, p[0], p[1], shift=shift, angle=30, antialias=antialias)
    raise ValueError(kind)


def half_turn(m):
    """value at the point reflected through the origin sample floor(n/2); None where that point is outside"""
    R, C = m.shape
    out = np.full(m.shape, np.nan)
    for i in range(R):
        for j in range(C):
            ii, jj = 2 * (R // 2) - i, 2 * (C // 2) - j
            if 0 <= ii < R and 0 <= jj < C:
                out[i, j] = m[ii, jj]
    return out


def mirror(m, axis):
    R, C = m.shape
    out = np.full(m.shape, np.nan)
    for i in range(R):
        for j in range(C):
            ii = 2 * (R // 2) - i if axis == 0 else i
            jj = 2 * (C // 2) - j if axis == 1 else j
            if 0 <= ii < R and 0 <= jj < C:
                out[i, j] = m[ii, jj]
    return out


def chk_shape(case, acc, seed):
    kind, shape, p, aa = case['shape_kind'], tuple(case['shape']), case['param'], case['antialias']
    try:
        m = np.asarray(draw(kind, shape, p, (0, 0), aa), dtype=float)
    except Exception as e:
        acc.violation(f'shape:{kind}:raises:{type(e).__name__}', case, repr(e))
        return
    if m.shape != shape:
        acc.violation(f'shape:{kind}:shape', case, f'{m.shape}')
        return
    if np.any(m < 0) or np.any(m > 1):
        acc.violation(f'shape:{kind}:range', case, f'values in [{m.min()}, {m.max()}]')
    if not aa and not np.all((m == 0) | (m == 1)):
        acc.violation(f'shape:{kind}:not-binary', case, 'non-binary values without antialiasing')
    h = half_turn(m)
    ok = ~np.isnan(h)
    if rm.maxerr(m[ok], h[ok]) > 1e-12:
        acc.violation(f'shape:{kind}:half-turn', case, 'not invariant under a half-turn about the origin sample floor(n/2)')
    if kind in ('circle', 'hexagon', 'hexagon-rot', 'rectangle'):
        for ax in (0, 1):
            mm = mirror(m, ax)
            ok = ~np.isnan(mm)
            if rm.maxerr(m[ok], mm[ok]) > 1e-12:
                acc.violation(f'shape:{kind}:mirror', dict(case, axis=ax), 'not mirror-symmetric about the origin sample')
    # integer shifts translate exactly (support away from the border)
    for sh in ((1, 0), (0, -2), (-2, 1)):
        ms = np.asarray(draw(kind, shape, p, sh, aa), dtype=float)
        exp = np.zeros(shape)
        R, C = shape
        src = m[max(0, -sh[0]):R - max(0, sh[0]), max(0, -sh[1]):C - max(0, sh[1])]
        exp[max(0, sh[0]):max(0, sh[0]) + src.shape[0], max(0, sh[1]):max(0, sh[1]) + src.shape[1]] = src
        if rm.maxerr(ms, exp) > 1e-12:
            acc.violation(f'shape:{kind}:integer-shift', dict(case, shift=sh), 'an integer shift does not translate the shape exactly')
    acc.cls('shape:' + kind)
    acc.case(case, outcome=f'{kind}-{aa}')


def chk_hex(case, acc, seed):
    import lentil
    rings, R, gap, rotate, drop = case['rings'], case['radius'], case['gap'], case['rotate'], tuple(case['drop'])
    nseg = 1 + 3 * rings * (rings + 1)
    try:
        m = lentil.hex_segments(rings, R, gap, rotate=rotate, antialias=False, drop=drop)
        ma = lentil.hex_segments(rings, R, gap, rotate=rotate, antialias=True, drop=drop)
        flat = lentil.hex_segments(rings, R, gap, rotate=rotate, antialias=False, drop=drop, flatten=True)
    except Exception as e:
        acc.violation(f'hex:raises:{type(e).__name__}', case, repr(e))
        return
    if not all(isinstance(x, np.ndarray) for x in (m, ma, flat)):
        acc.violation('hex:not-an-array', case, f'hex_segments returns {type(m).__name__} / {type(flat).__name__}, not arrays')
        return
    ndrop = len(set(d for d in drop if 0 <= d < nseg))
    if m.shape[0] != nseg - ndrop or np.asarray(ma).shape != m.shape:
        acc.violation('hex:count', case, f'{m.shape[0]} segments (antialiased call: {np.asarray(ma).shape[0] if np.ndim(ma) == 3 else np.shape(ma)}), expected {nseg} - {ndrop}')
        return
    if np.asarray(flat).shape != m.shape[1:]:
        acc.violation('hex:flatten', case, f'flatten=True gives shape {np.asarray(flat).shape}, the segment masks have {m.shape[1:]}')
        return
    if m.shape[0] == 0:
        acc.case(case, outcome='hex-empty')
        return
    if m.shape[1] != m.shape[2]:
        acc.violation('hex:not-square', case, f'{m.shape}')
    tot = m.sum(0)
    if np.any(tot > 1):
        n_ov = int((tot > 1).sum())
        acc.violation('hex:overlap:gap=0:shared-edge' if gap == 0 else f'hex:overlap:gap>0', case,
                      f'{n_ov} pixels belong to two segments (non-antialiased masks, gap {gap})')
    if not np.array_equal(flat, tot):
        acc.violation('hex:flatten', case, 'flatten=True is not the sum of the segment masks')
    if tot[0].any() or tot[-1].any() or tot[:, 0].any() or tot[:, -1].any():
        acc.violation('hex:border', case, 'aperture touches the array border')
    areas = m.reshape(m.shape[0], -1).sum(1)
    hexarea = 1.5 * math.sqrt(3) * R * R
    tol = 6 * R * 0.75 + 2
    if np.any(np.abs(areas - hexarea) > tol):
        acc.violation('hex:area', case, f'segment areas {areas.min()}..{areas.max()} vs hexagon area {hexarea:.1f} (tolerance {tol:.1f})')
    if areas.max() - areas.min() > tol:
        acc.violation('hex:area-spread', case, f'segment areas differ by {areas.max() - areas.min()}')
    aareas = ma.reshape(ma.shape[0], -1).sum(1)
    if np.any(np.abs(aareas - hexarea) > tol) or np.any(ma < 0) or np.any(ma > 1):
        acc.violation('hex:antialiased-area', case, f'antialiased areas {aareas.min():.1f}..{aareas.max():.1f} vs {hexarea:.1f}')
    acc.cls(f'hex:rings={rings}')
    acc.cls('hex:gap=0' if gap == 0 else 'hex:gap>0')
    acc.case(case, outcome=f'hex-{rings}-{gap}-{rotate}-{len(drop)}')


def chk_hex_history(case, acc, seed):
    """the aperture is a function of its arguments: the same call cold and after a call with another ring count"""
    import lentil
    kw = dict(seg_radius=case['radius'], seg_gap=case['gap'], rotate=case['rotate'], antialias=False)
    engine.reset_library_state()
    cold = lentil.hex_segments(case['rings'], **kw)
    engine.reset_library_state()
    lentil.hex_segments(case['before'], **kw)
    warm = lentil.hex_segments(case['rings'], **kw)
    if cold.shape != warm.shape or not np.array_equal(cold, warm):
        acc.violation('hex:history-dependent', case, f'hex_segments({case["rings"]}) after hex_segments({case["before"]}): {warm.shape[0]} segments, cold {cold.shape[0]}')
    again = lentil.hex_segments(case['rings'], **kw)
    if again.shape != cold.shape or not np.array_equal(again, cold):
        acc.violation('hex:history-dependent', case, 'third call differs')
    acc.cls('hex-history')
    acc.case(case, outcome='hex-history')


def chk_big_circle(case, acc, seed):
    """discs larger than the array: a shifted one is still the disc about the shifted centre"""
    import lentil
    shape, r, sh = tuple(case['shape']), case['radius'], tuple(case['shift'])
    rr, cc = np.indices(shape)
    d = np.hypot(rr - (shape[0] // 2 + sh[0]), cc - (shape[1] // 2 + sh[1]))
    for aa in (True, False):
        try:
            m = np.asarray(lentil.circle(shape, r, shift=sh, antialias=aa), float)
        except Exception as e:
            acc.violation(f'shape:circle:large:raises:{type(e).__name__}', dict(case, antialias=aa), repr(e))
            continue
        if np.any(m[d > r + 1] != 0) or np.any(m[d < r - 1] != 1):
            acc.violation('shape:circle:large-radius-shifted', dict(case, antialias=aa),
                          f'circle({shape}, {r}, shift={sh}): {int((m[d > r + 1] != 0).sum())} samples more than a pixel outside the disc are lit, {int((m[d < r - 1] != 1).sum())} inside are not')
    acc.cls('circle:large')
    acc.case(case, outcome='big-circle')


DISPATCH = {'bigcircle': chk_big_circle, 'hexhist': chk_hex_history, 'pad': chk_pad, 'stencil': chk_stencil, 'subarray': chk_subarray, 'rebin': chk_rebin, 'shape': chk_shape, 'hex': chk_hex}


DISPATCH['histop'] = histories.chk_case

def t_pad(arg, acc):
    tier, seed = arg['tier'], arg['seed']
    nmax = 6 if tier == 'quick' else 7
    n0 = arg['n0']
    for n1 in range(1, nmax + 1):
        for depth in (0, 1, 2, 3):
            acc.states += 1
            chk_pad({'kind': 'pad', 'n': (n0, n1), 'depth': depth, 'smax': nmax + 1}, acc, seed)


def t_stencil(arg, acc):
    shape = tuple(arg['shape'])
    for r in range(shape[0] - 2):
        for c in range(shape[1] - 2):
            if (r * 7 + c) % arg['nshard'] != arg['shard']:
                continue
            acc.states += 1
            chk_stencil({'kind': 'stencil', 'shape': shape, 'pos': (r, c)}, acc, arg['seed'])


def t_misc(arg, acc):
    tier, seed = arg['tier'], arg['seed']
    for A in ((4, 4), (5, 5), (4, 5), (5, 6)):
        chk_subarray({'kind': 'subarray', 'A': A}, acc, seed)
    for f in (1, 2, 3, 4):
        for tiles in ((1, 1), (2, 3), (3, 2)):
            for depth in (0, 1, 3):
                chk_rebin({'kind': 'rebin', 'factor': f, 'tiles': tiles, 'depth': depth}, acc, seed)
    for shp in ((16, 12), (15, 15), (12, 17)):
        half = math.hypot(*shp) / 2
        for r in (half - 1, half + 0.75, half + 3, 2 * half):
            for sh in ((0, 0), (7, 5), (-6, 0), (0, 8), (3, -7)):
                chk_big_circle({'kind': 'bigcircle', 'shape': shp, 'radius': r, 'shift': sh}, acc, seed)
    shapes = [(16, 16), (17, 17), (16, 19), (21, 18)]
    params = {'circle': [3, 4.5, 5.25], 'hexagon': [4.25, 5.5], 'hexagon-rot': [4.25, 5.5], 'rectangle': [(6, 4), (5, 7), (4.5, 3.25)],
              'rectangle-30': [(6, 4), (5, 3)]}
    for kind, ps in params.items():
        for shape in shapes:
            for p in ps:
                for aa in (True, False):
                    acc.transitions += 1
                    chk_shape({'kind': 'shape', 'shape_kind': kind, 'shape': shape, 'param': p, 'antialias': aa}, acc, seed)


def t_hex(arg, acc):
    tier, seed, rings = arg['tier'], arg['seed'], arg['rings']
    if arg['shard'] == 0:
        for before in (1, 2, 3, 4):
            for rotate in (False, True):
                if before != rings:
                    chk_hex_history({'kind': 'hexhist', 'rings': rings, 'before': before, 'radius': 5, 'gap': 1, 'rotate': rotate}, acc, seed)
        if rings <= 2:
            # large segments: sub-pixel geometry errors (orientation, spacing) become whole pixels
            for R in (13, 16.5):
                for gap in (0.5, 1, 2):
                    for rotate in (False, True):
                        for drop in ((), (1,), (0,)):
                            chk_hex({'kind': 'hex', 'rings': rings, 'radius': R, 'gap': gap, 'rotate': rotate, 'drop': drop}, acc, seed)
    nseg = 1 + 3 * rings * (rings + 1)
    drops = [()] + [(d,) for d in range(nseg)]
    pairs = list(itertools.combinations(range(nseg), 2))
    if rings >= 3 or (rings == 2 and tier == 'quick'):
        pairs = pairs[::17]
    drops += pairs
    drops.append(tuple(range(nseg))[:nseg - 1])
    for gap in (0, 0.5, 1, 2.5):
        for rotate in (False, True):
            for R in ((5, 6.5) if rings < 3 else (5,)):
                for k, drop in enumerate(drops):
                    if k % arg['nshard'] != arg['shard']:
                        continue
                    acc.transitions += 1
                    chk_hex({'kind': 'hex', 'rings': rings, 'radius': R, 'gap': gap, 'rotate': rotate, 'drop': drop}, acc, seed)


def run(tier, seed, acc, procs=None):
    nmax = 6 if tier == 'quick' else 7
    tasks = [('t_pad', {'tier': tier, 'seed': seed, 'n0': n0}) for n0 in range(1, nmax + 1)]
    st_shape = (5, 6) if tier == 'quick' else (6, 7)
    for sh in range(6):
        tasks.append(('t_stencil', {'seed': seed, 'shape': st_shape, 'shard': sh, 'nshard': 6}))
    tasks.append(('t_misc', {'tier': tier, 'seed': seed}))
    for rings in (1, 2, 3):
        ns = {1: 1, 2: 4, 3: 6}[rings]
        for sh in range(ns):
            tasks.append(('t_hex', {'tier': tier, 'seed': seed, 'rings': rings, 'shard': sh, 'nshard': ns}))
    acc.states += 1
    acc.transitions += len(tasks)
    tasks += histories.tasks_for(PID, seed)        # pairwise call histories over the operations this property is anchored in
    engine.run_parallel(MOD, tasks, acc, procs)
    return {
        'rule': f'pad: every (n0,n1) in 1..{nmax} -> every (S0,S1) in 1..{nmax + 1}, 2-D and cubes of depth 1-3, unique cell ids, against '
                'index arithmetic, plus grow-then-crop identity and window(); boundary / boundary_slice(pad) / slice_offset / subarray / '
                f'centroid for all 511 non-empty subsets of a 3x3 stencil at every placement in {st_shape}; subarray for every window '
                'size and shift; rebin block sums; circle / hexagon (both orientations) / rectangle (0 and 30 degrees) on even, odd and '
                'non-square arrays: range, binary, half-turn, mirrors, exact integer translation; hex_segments for rings 1-3 x 4 gaps x '
                'rotate x 2 radii x drop sets of size <= 2.',
        'bounds': {'pad_max': nmax, 'stencil_array': st_shape, 'hex_rings': [1, 2, 3], 'hex_gaps': [0, 0.5, 1, 2.5]},
        'assumptions': ['hexagon radii are chosen so that no pixel centre lies exactly on a vertex (a floating-point tie)', 'segment area tolerance 6R*0.75+2 pixels (edge sampling of a hexagon of perimeter 6R)'],
        'require': {'pad:2d': 30, 'pad:cube': 90, 'stencil': 10, 'subarray': 4, 'rebin': 30, 'shape:circle': 20, 'shape:hexagon': 10,
                    'shape:rectangle-30': 10, 'hex:rings=1': 50, 'hex:rings=3': 50, 'hex:gap=0': 50, 'centroid:signed': 100, 'hex-history': 12, 'circle:large': 40},
    }


def replay(case, acc):
    if case.get('kind') == 'histop':
        import os as _os
        return histories.chk_case(case, acc, int(_os.environ.get('VERIF_SEED', '0') or 0))
    seed = int(os.environ.get('VERIF_SEED', '0') or 0)
    DISPATCH[case['kind']](case, acc, seed)
