"""C10 -- calls are pure: no hidden mutation of inputs and no dependence on call history (E2)."""
import copy
import hashlib
import os
import warnings

import numpy as np

from .. import engine, optics as op, refmodel as rm
from .. import histories
from ..histories import t_callhist, t_cross      # worker tasks of the history harness (mc/histories.py)

PID = 'C10'
MOD = 'mc.props.c10'
WL, DX, DU, Z = op.WL, op.DX, op.DU, 1.0
S = (6, 5)
TO_NM = {'nm': 1.0, 'um': 1e3, 'm': 1e9, 'angstrom': 0.1}


def h(*parts):
    m = hashlib.blake2b(digest_size=10)
    for p in parts:
        if isinstance(p, np.ndarray):
            m.update(str((p.dtype, p.shape)).encode()); m.update(np.ascontiguousarray(p).tobytes())
        else:
            m.update(repr(p).encode())
    return m.hexdigest()


def tilt_id(t):
    return (type(t).__name__, float(getattr(t, 'x', 0)), float(getattr(t, 'y', 0)))


def dig_plane(p):
    if p is None:
        return None
    return h(np.asarray(p.amplitude), np.asarray(p.opd), np.asarray(p.mask), [tilt_id(t) for t in p.tilt], p.pixelscale, str(p.ptype),
             getattr(p, 'focal_length', None))


def dig_wf(w):
    if w is None:
        return None
    parts = [str(w.ptype), tuple(int(x) for x in w.shape), w.wavelength, w.focal_length,
             None if w.pixelscale is None else tuple(np.asarray(w.pixelscale).tolist())]
    for f in w.data:
        parts += [np.asarray(f.data), tuple(int(x) for x in np.asarray(f.offset).tolist()), [tilt_id(t) for t in f.tilt]]
    return h(*parts)


def dig_spec(s):
    """physical digest: wavelengths in nm, values per nm (density) or as they are (unit-less), rounded"""
    f = TO_NM[s.waveunit]
    w = np.asarray(s.wave, float) * f
    v = np.asarray(s.value, float) / (f if s.valueunit is not None else 1.0)
    return h(np.round(np.log(w), 9), np.round(v, 9), s.valueunit)


def dig_rng():
    st = np.random.get_state()
    return h(st[1], st[2], st[3])


DEFAULT_ERRSTATE = {'divide': 'warn', 'over': 'warn', 'under': 'ignore', 'invalid': 'warn'}


class World:
    ARR = ['A', 'O', 'M', 'M3', 'E', 'E3', 'IMG', 'OUT', 'SCR', 'F', 'HOLD']

    def __init__(self, seed, frozen):
        from lentil.radiometry import Spectrum
        amp, opd, m = op.pupil_arrays(S, 'offcentre', seed, tag=3)
        rr, cc = np.meshgrid(np.arange(S[0]) - S[0] // 2, np.arange(S[1]) - S[1] // 2, indexing='ij')
        self.A = amp
        self.O = opd + (0.13 * rr - 0.09 * cc) * WL / 4
        self.M = m * 0.7                     # float mask with values outside {0, 1}
        self.M3 = np.stack([m * (cc < 0) * 0.5, m * (cc >= 0) * 2.0])
        self.E = np.array([[-3.0, 0.5, 99.5], [100.0, 250.0, 7.0]])
        self.E3 = rm.generic_real((2, 3, 3), seed, tag=4, lo=0, hi=40)
        self.IMG = rm.generic_real((5, 6), seed, tag=5, lo=0.5, hi=3)
        self.OUT = np.zeros((12, 10))
        self.SCR = np.full((18, 18), 3 - 1j)
        self.F = rm.generic_complex((4, 5), seed, tag=6)
        self.HOLD = None
        self.P = None
        self.W = None
        self.W2 = None
        self.S1 = Spectrum(np.array([400., 500., 600., 700.]), np.array([0.2, 0.8, 0.6, 0.1]), waveunit='nm')
        self.S2 = Spectrum(np.array([0.45, 0.55, 0.65]), np.array([0.9, 0.5, 0.3]), waveunit='um')
        self.total = None                    # model: total OPD ever put into P (for path independence)
        self.frozen = frozen
        np.random.seed(4242)
        self.rng_state = np.random.get_state()     # the global generator is part of the explored state
        self.errstate = dict(DEFAULT_ERRSTATE)       # so is numpy's floating-point error handling
        if frozen:
            for n in ('A', 'O', 'M', 'M3', 'E', 'E3', 'IMG', 'F'):
                getattr(self, n).flags.writeable = False

    def digests(self):
        d = {n: (None if getattr(self, n) is None else h(getattr(self, n))) for n in self.ARR}
        d['P'] = dig_plane(self.P)
        d['W'] = dig_wf(self.W)
        d['W2'] = dig_wf(self.W2)
        d['S1'] = dig_spec(self.S1)
        d['S2'] = dig_spec(self.S2)
        d['numpy-errstate'] = repr(sorted(self.errstate.items()))
        return d


def ramp(tx, ty):
    rr, cc = np.meshgrid(np.arange(S[0]) - S[0] // 2, np.arange(S[1]) - S[1] // 2, indexing='ij')
    return tx * rr * DX - ty * cc * DX


# event -> (precondition, function(world) -> (memo_args, result), names allowed to change)
def ev_mkP_mask(w):
    import lentil
    w.P = lentil.Pupil(amplitude=w.A, opd=w.O, mask=w.M, pixelscale=DX, focal_length=Z)
    w.total = np.array(w.O, copy=True)
    return (h(w.A), h(w.O), h(w.M)), dig_plane(w.P)


def ev_mkP(w):
    import lentil
    w.P = lentil.Pupil(amplitude=w.A, opd=w.O, pixelscale=DX, focal_length=Z)
    w.total = np.array(w.O, copy=True)
    return (h(w.A), h(w.O)), dig_plane(w.P)


def ev_mkP_seg(w):
    import lentil
    w.P = lentil.Pupil(amplitude=w.A, opd=w.O, mask=w.M3, pixelscale=DX, focal_length=Z)
    w.total = np.array(w.O, copy=True)
    return (h(w.A), h(w.O), h(w.M3)), dig_plane(w.P)


def ev_mkP_scalar(w):
    import lentil
    w.P = lentil.Pupil(amplitude=0.5, opd=w.O, mask=w.M, pixelscale=DX, focal_length=Z)      # scalar amplitude, array mask
    w.total = np.array(w.O, copy=True)
    return (h(w.O), h(w.M), 'scalar'), dig_plane(w.P)


def ev_mul_bare(w):
    import lentil
    # a pupil that carries nothing but a focal length: the product is a new wavefront, the operand keeps its own focal length
    r = w.W * lentil.Pupil(focal_length=20.0)
    return (dig_wf(w.W), 'bare'), (dig_wf(r), r is w.W)


def ev_mul(w):
    import lentil
    w.W = lentil.Wavefront(WL) * w.P
    return (dig_plane(w.P),), dig_wf(w.W)


def ev_mul_tilt(w):
    import lentil
    r = w.W * lentil.Tilt(x=1e-6, y=-2e-6)          # must not touch the wavefront it was given
    r2 = w.W * lentil.Tilt(x=1e-6, y=-2e-6)
    return (dig_wf(w.W), 'tilt'), (dig_wf(r), dig_wf(r2))


def ev_mul_again(w):
    import lentil
    r = lentil.Wavefront(WL, tilt=[2e-6, 0]) * w.P * lentil.Tilt(x=0, y=1e-6)
    return (dig_plane(w.P), 'again'), dig_wf(r)


def ev_prop_dft(w):
    import lentil
    w.W2 = lentil.propagate_dft(w.W, DU, shape=(6, 5), oversample=2)
    return (dig_wf(w.W),), dig_wf(w.W2)


def ev_prop_fft(w):
    import lentil
    du = (DU, DU / 2)                      # per-axis output sampling: the padded grid is wider than tall
    w.W2 = lentil.propagate_fft(w.W, du, shape=(4, 4), oversample=1, scratch=w.SCR)
    first = dig_wf(w.W2)
    again = lentil.propagate_fft(w.W, du, shape=(4, 4), oversample=1, scratch=w.SCR)
    held = dig_wf(w.W2)
    return (dig_wf(w.W),), first, [(dig_wf(again) == first, 'history-dependent:prop_fft:same-scratch-twice',
                                     'the identical propagate_fft call through the same scratch buffer returns a different field the second time'),
                                    (held == first, 'mutates:prop_fft:earlier-result',
                                     'the wavefront returned by the first call changed when the scratch buffer was used again')]


def ev_fit_copy(w):
    w.P = w.P.fit_tilt()
    return None, None


def ev_fit_inplace(w):
    # the plane may alias the array it was built from; give it its own OPD first so that only the plane is the target
    w.P.opd = np.array(w.P.opd, copy=True)
    a = dig_plane(w.P)
    w.P.fit_tilt(inplace=True)
    return (a,), dig_plane(w.P)


def ev_opd_add(w):
    add = ramp(2e-6, -1e-6) + 0.02 * WL * np.cos(np.arange(S[0] * S[1]).reshape(S))
    w.P.opd = w.P.opd + add
    w.total = w.total + add
    return None, None


def ev_opd_add_b(w):
    add = ramp(-3e-6, 2.5e-6)
    w.P.opd = w.P.opd + add
    w.total = w.total + add
    return None, None


def ev_rescale(w):
    import lentil
    a = dig_plane(w.P)
    q = w.P.rescale(2)
    f = lentil.Wavefront(WL) * q          # the rescaled plane is used, not only inspected
    try:
        extra = (h(np.asarray(q.ptt_vector)) if q.ptt_vector is not None else None, dig_plane(q.fit_tilt()))
    except Exception as e:
        extra = ('raises', type(e).__name__)
    # a twin built from the plane's public attributes (never queried, never fitted) resamples to the same plane: what a plane
    # does depends on what it is, not on which of its read-only properties were looked at before
    P = w.P
    twin = lentil.Pupil(amplitude=np.array(P.amplitude, copy=True), opd=np.array(P.opd, copy=True), mask=np.array(P.mask, copy=True),
                        pixelscale=P.pixelscale, focal_length=P.focal_length)
    twin.tilt = list(P.tilt)
    if dig_plane(twin) == a:
        q2 = twin.rescale(2)
        try:
            extra2 = (h(np.asarray(q2.ptt_vector)) if q2.ptt_vector is not None else None, dig_plane(q2.fit_tilt()))
        except Exception as e:
            extra2 = ('raises', type(e).__name__)
        same = (dig_plane(q2), extra2) == (dig_plane(q), extra)
        return (a,), (dig_plane(q), dig_wf(f), extra), [(same, 'path-dependent-plane:rescale',
                                                         'rescaling this plane gives a different plane (or a different tilt fit afterwards) than rescaling a plane '
                                                         f'built afresh from the same amplitude, OPD, mask, pixel scale and tilt records: {extra} vs {extra2}')]
    return (a,), (dig_plane(q), dig_wf(f), extra)


def ev_dft2_a(w):
    import lentil
    r = lentil.fourier.dft2(w.F, (0.2, 0.125), shape=(6, 6), shift=(0.5, 0), offset=(1, -1))
    w.HOLD = r
    return (h(w.F), 'a'), h(np.asarray(r))


def ev_dft2_b(w):
    import lentil
    r = lentil.fourier.dft2(w.F, (0.2, 0.125), shape=(6, 6), shift=(-1.25, 2), offset=(0, 3))
    return (h(w.F), 'b'), h(np.asarray(r))


def ev_dft2_c(w):
    import lentil
    r = lentil.fourier.dft2(w.F, 0.25, shape=(6, 6), unitary=False)
    return (h(w.F), 'c'), h(np.asarray(r))


def ev_idft2(w):
    import lentil
    r = lentil.fourier.idft2(w.F, (0.25, 0.2))
    return (h(w.F), 'i'), h(np.asarray(r))


def ev_adc(w):
    import lentil
    with warnings.catch_warnings():
        warnings.simplefilter('ignore')
        r = lentil.detector.adc(w.E, [2.0 ** -6, 0.5], saturation_capacity=100, warn_saturate=True, dtype=np.uint16)
    return (h(w.E),), h(np.asarray(r))


def seeded(fn):
    """seeded functions: the global generator is neither read nor advanced"""
    def run(w):
        g0 = dig_rng()
        out = fn(w)
        if dig_rng() != g0:
            raise GlobalRNG('advanced')
        return out
    return run


class GlobalRNG(Exception):
    pass


@seeded
def ev_shot(w):
    import lentil
    r = lentil.detector.shot_noise(np.abs(w.E), seed=11)
    return (h(w.E), 'shot'), h(np.asarray(r))


@seeded
def ev_read(w):
    import lentil
    r = lentil.detector.read_noise(w.E, 5.0, seed=12)
    return (h(w.E), 'read'), h(np.asarray(r))


@seeded
def ev_dark(w):
    import lentil
    r = lentil.detector.dark_current(20.5, shape=(3, 4), fpn_factor=0.2, seed=13)
    return ('dark',), h(np.asarray(r))


@seeded
def ev_psd(w):
    import lentil
    r = lentil.power_spectrum(w.M, 1e-3, 1e-9, 5, 3, seed=14)
    return (h(w.M), 'psd'), h(np.asarray(r))


@seeded
def ev_psd_b(w):
    import lentil
    r = lentil.power_spectrum(w.M, 0.25, 1e-9, 5, 3, seed=14)       # same shape / seed as 'psd', another pixel scale
    return (h(w.M), 'psd_b'), h(np.asarray(r))


def ev_zfit_b(w):
    import lentil
    mask = np.asarray(w.A) != 0
    rho, theta = lentil.zernike_coordinates(mask, shift=(0.5, -0.25), rotate=30)
    c = lentil.zernike_fit(w.O, mask, [1, 2, 3, 4], rho=rho, theta=theta)
    r = lentil.zernike_remove(w.O, mask, [2, 3], rho=rho, theta=theta)
    return (h(w.O), h(w.A), 'b'), h(np.asarray(c), np.asarray(r))


def ev_spec_sample_b(w):
    r = w.S1.sample(np.array([450.0, 650.0]), method='quadratic')
    return (dig_spec(w.S1), 'sample_b'), h(np.round(np.asarray(r), 9))


def ev_shot_reject(w):
    import lentil
    ok = False
    try:
        lentil.detector.shot_noise(np.array([[4.0, -1.0], [9.0, 2.0]]), method='gaussian', seed=3)
    except ValueError:
        ok = True
    return ('reject',), ok


def ev_divide(w):
    # an unrelated caller computation that relies on numpy's default error handling (inf / nan, no exception)
    with warnings.catch_warnings():
        warnings.simplefilter('ignore')
        r = (w.S1 / (w.S1 * 0)).value
        r2 = np.array([1.0, 0.0]) / np.array([0.0, 0.0])
    return ('divide',), h(np.nan_to_num(np.asarray(r), nan=-1, posinf=-2), np.nan_to_num(r2, nan=-1, posinf=-2))


def ev_jitter_b(w):
    import lentil
    return (h(w.IMG), 'jitter_b'), h(np.asarray(lentil.jitter(w.IMG, 1.25, pixelscale=2.0)))      # same scale, other pixel scale


def ev_jitter_c(w):
    import lentil
    return (h(w.IMG), 'jitter_c'), h(np.asarray(lentil.jitter(w.IMG, 1.25, oversample=3)))


def ev_smear_b(w):
    import lentil
    return (h(w.IMG), 'smear_b'), h(np.asarray(lentil.smear(w.IMG, 2.0, angle=30, pixelscale=4.0)))


@seeded
def ev_dark0(w):
    import lentil
    r = lentil.detector.dark_current(20.5, shape=(3, 4), fpn_factor=0.2, seed=0)      # 0 is a seed like any other
    r2 = lentil.detector.dark_current(20.5, shape=(3, 4), fpn_factor=0.2, seed=0)
    return ('dark0',), h(np.asarray(r)), [(np.array_equal(r, r2), 'history-dependent:dark0:not-repeatable', 'dark_current(seed=0) gives two different frames')]


@seeded
def ev_shot0(w):
    import lentil
    r = lentil.detector.shot_noise(np.abs(w.E), seed=0)
    r2 = lentil.detector.read_noise(w.E, 5.0, seed=0)
    return (h(w.E), 'seed0'), h(np.asarray(r), np.asarray(r2))


def ev_errors(w):
    """calls that are (rightly) refused; whatever they raise, nothing may be left behind"""
    import lentil
    raised = []
    for name, fn in (('idft2-bad-out', lambda: lentil.fourier.idft2(w.F, 0.25, out=np.zeros(w.F.shape))),
                     ('dft2-bad-out', lambda: lentil.fourier.dft2(w.F, 0.25, out=np.zeros(w.F.shape, dtype=np.int32))),
                     ('psd-bad-seed', lambda: lentil.power_spectrum(w.M, 1e-3, 1e-9, 5, 3, seed=-1)),
                     ('psd-bad-mask', lambda: lentil.power_spectrum(np.ones(5), 1e-3, 1e-9, 5, 3, seed=1)),
                     ('zernike-bad-index', lambda: lentil.zernike_basis(np.asarray(w.A) != 0, [0, 1, 2])),
                     ('zernike-no-theta', lambda: lentil.zernike(np.asarray(w.A) != 0, 3, rho=np.ones(S))),
                     ('fft-oversize', lambda: lentil.propagate_fft(lentil.Wavefront(WL) * lentil.Pupil(amplitude=np.ones((4, 4)), pixelscale=DX, focal_length=Z), DU, shape=(99, 99), oversample=2)),
                     ('rescale-int-mask', lambda: lentil.Pupil(amplitude=np.ones((4, 4)), mask=np.ones((4, 4), dtype=int), pixelscale=DX, focal_length=Z).rescale(2).rescale(2)),
                     ('spectrum-bad-wave', lambda: w.S1.copy().resample(np.array([500.0, 450.0]))),
                     ('bayer-bad-pattern', lambda: lentil.detector.collect_charge_bayer(w.E3, [450.0, 650.0], 1, 1, 1, 'RGX')),
                     ('adc-bad-gain', lambda: lentil.detector.adc(np.ones((2, 2)), np.ones((1, 2, 2, 2)))),
                     ('propagate-none', lambda: lentil.propagate_dft(lentil.Wavefront(WL), DU, shape=(3, 3))),
                     ('pupil-times-image', lambda: (lentil.Wavefront(WL) * lentil.Pupil(amplitude=np.ones((3, 3)), pixelscale=DX, focal_length=Z)) * lentil.Image(amplitude=np.ones((3, 3))))):
        try:
            with warnings.catch_warnings():
                warnings.simplefilter('ignore')
                fn()
            raised.append((name, None))
        except Exception as e:
            raised.append((name, type(e).__name__))
    return ('errors',), h(raised)


def ev_global_rand(w):
    np.random.rand(3)          # the caller uses the global generator
    return None, None


def ev_smear_random(w):
    import lentil
    lentil.smear(w.IMG, 1.5)   # angle=None draws from the global generator: legitimately advances it
    return None, None


def ev_pixel(w):
    import lentil
    return (h(w.IMG), 'pixel'), h(np.asarray(lentil.detector.pixel(w.IMG, 2)))


def ev_jitter(w):
    import lentil
    return (h(w.IMG), 'jitter'), h(np.asarray(lentil.jitter(w.IMG, 1.25)))


def ev_smear(w):
    import lentil
    return (h(w.IMG), 'smear'), h(np.asarray(lentil.smear(w.IMG, 2.0, angle=30)))


def ev_collect(w):
    import lentil
    r = lentil.detector.collect_charge(w.E3, [450.0, 650.0], w.S2, waveunit='nm')
    return (h(w.E3), dig_spec(w.S2)), h(np.round(np.asarray(r), 9))


def ev_bayer(w):
    import lentil
    r = lentil.detector.collect_charge_bayer(w.E3[:, :2, :2], [450.0, 650.0], w.S2, 0.5, [0.1, 0.2], 'RGGB', oversample=1)
    return (h(w.E3), dig_spec(w.S2), 'bayer'), h(np.round(np.asarray(r), 9))


def ev_spec_mul(w):
    r = w.S1 * w.S2
    return (dig_spec(w.S1), dig_spec(w.S2)), dig_spec(r)


def ev_spec_sample(w):
    r = w.S2.sample(np.array([500.0, 600.0]), waveunit='nm')
    return (dig_spec(w.S2), 'sample'), h(np.round(np.asarray(r), 9))


def ev_spec_integrate(w):
    return (dig_spec(w.S1), 'int'), h(round(float(w.S1.integrate(method='trapz')), 9))


def ev_spec_bin(w):
    r = w.S1.bin(np.array([450.0, 550.0, 650.0]), interp_method='trapz')
    return (dig_spec(w.S1), 'bin'), h(np.round(np.asarray(r), 9))


def ev_zfit(w):
    import lentil
    mask = np.asarray(w.A) != 0
    c = lentil.zernike_fit(w.O, mask, [1, 2, 3, 4])
    r = lentil.zernike_remove(w.O, mask, [2, 3])
    return (h(w.O), h(w.A)), h(np.asarray(c), np.asarray(r))


def ev_insert(w):
    src = w.W2 if w.W2 is not None else w.W
    src.insert(w.OUT[:src.shape[0], :src.shape[1]], weight=0.5)
    return None, None


def ev_util(w):
    import lentil
    r1 = lentil.normalize_power(w.A, 2)
    r2 = lentil.pad(w.A, (8, 3))
    r3 = lentil.rebin(w.IMG[:4, :6], 2)
    r4 = lentil.boundary(w.M)
    r5 = lentil.centroid(w.A)
    return (h(w.A), h(w.IMG), h(w.M)), h(np.asarray(r1), np.asarray(r2), np.asarray(r3), tuple(int(x) for x in r4), tuple(float(x) for x in r5))


def ev_field_view(w):
    src = w.W2 if w.W2 is not None else w.W
    return (dig_wf(src), 'views'), h(np.asarray(src.field), np.asarray(src.intensity))


hasP = lambda w: w.P is not None
hasW = lambda w: w.W is not None and len(w.W.shape) == 2
hasAny = lambda w: (w.W2 is not None) or hasW(w)
always = lambda w: True
EVENTS = {
    'mkP_mask': (always, ev_mkP_mask, {'P'}), 'mkP_scalar': (always, ev_mkP_scalar, {'P'}), 'mul_bare': (hasW, ev_mul_bare, set()), 'mkP': (always, ev_mkP, {'P'}), 'mkP_seg': (always, ev_mkP_seg, {'P'}),
    'mul': (hasP, ev_mul, {'W'}), 'mul_tilt': (hasW, ev_mul_tilt, set()), 'mul_again': (hasP, ev_mul_again, set()), 'prop_dft': (hasW, ev_prop_dft, {'W2'}), 'prop_fft': (lambda w: hasW(w) and not any(f.tilt for f in w.W.data), ev_prop_fft, {'W2', 'SCR'}),
    'fit_copy': (hasP, ev_fit_copy, {'P'}), 'fit_inplace': (hasP, ev_fit_inplace, {'P'}),
    'opd_add': (hasP, ev_opd_add, {'P'}), 'opd_add_b': (hasP, ev_opd_add_b, {'P'}), 'rescale': (hasP, ev_rescale, set()),
    'dft2_a': (always, ev_dft2_a, {'HOLD'}), 'dft2_b': (always, ev_dft2_b, set()), 'dft2_c': (always, ev_dft2_c, set()), 'idft2': (always, ev_idft2, set()),
    'adc': (always, ev_adc, set()), 'shot': (always, ev_shot, set()), 'read': (always, ev_read, set()), 'dark': (always, ev_dark, set()),
    'jitter_b': (always, ev_jitter_b, set()), 'jitter_c': (always, ev_jitter_c, set()), 'smear_b': (always, ev_smear_b, set()), 'dark0': (always, ev_dark0, set()), 'shot0': (always, ev_shot0, set()), 'errors': (always, ev_errors, set()),
    'shot_reject': (always, ev_shot_reject, set()), 'divide': (always, ev_divide, set()), 'psd': (always, ev_psd, set()), 'psd_b': (always, ev_psd_b, set()), 'zfit_b': (always, ev_zfit_b, set()), 'spec_sample_b': (always, ev_spec_sample_b, set()), 'global_rand': (always, ev_global_rand, set()), 'smear_random': (always, ev_smear_random, set()),
    'pixel': (always, ev_pixel, set()), 'jitter': (always, ev_jitter, set()), 'smear': (always, ev_smear, set()),
    'collect': (always, ev_collect, set()), 'bayer': (always, ev_bayer, set()), 'spec_mul': (always, ev_spec_mul, set()),
    'spec_sample': (always, ev_spec_sample, set()), 'spec_integrate': (always, ev_spec_integrate, set()), 'spec_bin': (always, ev_spec_bin, set()),
    'zfit': (always, ev_zfit, set()), 'insert': (hasAny, ev_insert, {'OUT'}), 'util': (always, ev_util, set()), 'views': (hasAny, ev_field_view, set()),
}
FROZEN_SKIP = {'insert'}


def enabled(w):
    return [n for n, (pre, fn, allowed) in EVENTS.items() if pre(w) and not (w.frozen and n in FROZEN_SKIP)]


def plane_state_key(w):
    """canonical physical state of the plane: amplitude, mask, OPD + recorded tilt (rounded to 1e-6 wave)"""
    p = w.P
    tot = np.array(p.opd, dtype=float, copy=True)
    nseg = p.size
    masks = [np.asarray(p.mask)] if nseg == 1 else list(np.asarray(p.mask))
    eff = np.zeros(S)
    for k, m in enumerate(masks):
        o = np.array(p.opd, dtype=float, copy=True)
        for T in p.tilt[k::nseg]:
            o = o + ramp(T.y, T.x)
        eff += o * (m != 0)
    return h(np.asarray(p.amplitude), np.asarray(p.mask), np.round(eff / WL, 6)), eff


def step(w, name, hist, acc, memo):
    """apply one event to the world (in place, the caller passes a deep copy)."""
    import lentil
    pre, fn, allowed = EVENTS[name]
    case = {'kind': 'hist', 'frozen': w.frozen, 'events': hist}
    before = w.digests()
    np.random.set_state(w.rng_state)
    np.seterr(**w.errstate)
    extra = []
    try:
        out = fn(w)
        args, res = out[0], out[1]
        extra = out[2] if len(out) > 2 else []
    except GlobalRNG:
        acc.violation(f'rng:{name}:global-state-advanced', case, f'{name} is seeded but advanced the global numpy generator')
        args, res = None, None
    except ValueError as e:
        if 'read-only' in str(e):
            acc.violation(f'mutates:{name}:read-only-input', case, f'{name} tried to write into a caller-owned array: {e}')
            w.dead = True
            return
        acc.violation(f'raises:{name}:ValueError', case, repr(e))
        w.dead = True
        return
    except Exception as e:
        acc.violation(f'raises:{name}:{type(e).__name__}', case, repr(e))
        w.dead = True
        return
    w.rng_state = np.random.get_state()
    w.errstate = dict(np.geterr())
    np.seterr(**DEFAULT_ERRSTATE)
    for ok, key, msg in extra:
        if not ok:
            acc.violation(f'{key}', case, msg)
    after = w.digests()
    for item in before:
        if before[item] != after[item] and item not in allowed:
            acc.violation(f'mutates:{name}:{item}', case, f'{name} changed {item}, which it is not documented to modify')
    # (2) one key, one result -- across every explored history (merged across worker processes too)
    if args is not None:
        key = h(name, args)
        if key in memo:
            if memo[key][0] != res:
                acc.violation(f'history-dependent:{name}', dict(case, other=memo[key][1]),
                              f'{name} with identical arguments returned a different result than in history {memo[key][1]}')
        else:
            memo[key] = (res, hist, name, w.frozen)
    # (3) path independence of plane states: equal (amplitude, mask, OPD + recorded tilt) => equal propagated field
    if name in ('fit_copy', 'fit_inplace', 'opd_add', 'opd_add_b', 'mkP', 'mkP_mask', 'mkP_seg', 'mkP_scalar') and w.P is not None:
        try:
            key, eff = plane_state_key(w)
            wf = lentil.Wavefront(WL) * w.P
            out = lentil.propagate_dft(wf, op.DU2, shape=(10, 10), oversample=1)
            val, cnt, _ = op.render(out)
            full = cnt == len(wf.data)
            k2 = 'planeprop:' + key
            if k2 in memo:
                v0, f0, h0 = memo[k2][:3]
                both = full & f0
                if both.any() and rm.maxerr(val[both], v0[both]) > 1e-7:
                    nfit = max(sum(e.startswith('fit') for e in hist), sum(e.startswith('fit') for e in h0))
                    acc.violation(f'path-dependent-plane:{"refit" if nfit > 1 else "fit"}', dict(case, other=h0),
                                  f'the same plane state (amplitude, mask, OPD + recorded tilt) reached through {h0} and {hist} '
                                  f'propagates to different fields (max diff {rm.maxerr(val[both], v0[both]):.3e})')
                acc.cls('path-compared')
            else:
                memo[k2] = (val, full, hist, w.frozen)
            # and equals everything that was ever put into the plane
            if w.total is not None:
                m = (np.asarray(w.P.mask).sum(0) if w.P.size > 1 else np.asarray(w.P.mask)) != 0
                if rm.maxerr(eff[m], w.total[m]) > 1e-6 * WL:
                    acc.violation('plane-state:opd-plus-tilt-lost', case, f'OPD + recorded tilt differs from everything put into the plane by {rm.maxerr(eff[m], w.total[m]):.3e} m')
        except Exception as e:
            acc.violation(f'raises:planeprop:{type(e).__name__}', case, repr(e))


def memo_merge(acc, part):
    """merge a worker's memo into the master's: one key, one result -- also across worker processes"""
    for k, v in part.items():
        if k not in acc.memo:
            acc.memo[k] = v
            continue
        u = acc.memo[k]
        if k.startswith('planeprop:'):
            both = u[1] & v[1]
            if both.any() and rm.maxerr(u[0][both], v[0][both]) > 1e-7:
                acc.violation('path-dependent-plane:cross-history', {'kind': 'hist', 'frozen': v[3], 'events': v[2], 'other': u[2]},
                              f'the same plane state reached through {u[2]} and {v[2]} propagates to different fields')
        elif u[0] != v[0]:
            acc.violation(f'history-dependent:{v[2]}', {'kind': 'hist', 'frozen': v[3], 'events': v[1], 'other': u[1]},
                          f'{v[2]} with identical arguments returned a different result in history {u[1]} than in {v[1]}')


# ---- purity probes: one public call at a time, a fixed catalogue ------------------------------------------------
def _arrays_in(obj, out=None):
    out = [] if out is None else out
    if isinstance(obj, np.ndarray):
        out.append(obj)
    elif isinstance(obj, (list, tuple)):
        for o in obj:
            _arrays_in(o, out)
    elif isinstance(obj, dict):
        for o in obj.values():
            _arrays_in(o, out)
    elif hasattr(obj, 'wave') and hasattr(obj, 'value'):
        out += [np.asarray(obj.wave), np.asarray(obj.value)]
    elif hasattr(obj, 'data') and isinstance(getattr(obj, 'data'), list):        # Wavefront
        for f in obj.data:
            out.append(np.asarray(f.data))
    elif hasattr(obj, 'amplitude') and hasattr(obj, 'opd'):                        # Plane
        out += [np.asarray(obj.amplitude), np.asarray(obj.opd), np.asarray(obj.mask)]
    return out


def probe_catalogue(seed):
    """name -> (build() -> (callable, args dict), views_allowed)"""
    import lentil
    import sys
    rad = sys.modules['lentil.radiometry']
    R = lambda shape, tag, lo=0.2, hi=2.0: rm.generic_real(shape, seed, tag=tag, lo=lo, hi=hi)
    mask = lambda: (lentil.circle((9, 8), 3.25, antialias=False))
    spec = lambda: rad.Spectrum(np.array([400., 450., 500., 600., 700.]), R((5,), 1), waveunit='nm')
    specum = lambda: rad.Spectrum(np.array([0.4, 0.5, 0.6, 0.7]), R((4,), 2), waveunit='um', valueunit='flam')
    pupil = lambda: lentil.Pupil(amplitude=R((6, 5), 3), opd=R((6, 5), 4, -1, 1) * WL, pixelscale=DX, focal_length=Z)
    wf = lambda: lentil.Wavefront(WL) * pupil()
    C = {
        'dft2': lambda: (lentil.fourier.dft2, dict(f=rm.generic_complex((4, 5), seed, 1), alpha=(0.2, 0.125), shape=(5, 6), shift=(0.5, -1), offset=(1, 0))),
        'idft2': lambda: (lentil.fourier.idft2, dict(F=rm.generic_complex((4, 5), seed, 2), alpha=(0.25, 0.2))),
        'pad': lambda: (lentil.pad, dict(array=R((3, 4), 5), shape=(6, 5))),
        'pad-crop': lambda: (lentil.pad, dict(array=R((6, 5), 6), shape=(3, 4))),
        'rebin': lambda: (lentil.rebin, dict(img=R((4, 6), 7), factor=2)),
        'rescale': lambda: (lentil.rescale, dict(img=R((8, 8), 8), scale=1.5)),
        'rescale-mask': lambda: (lentil.rescale, dict(img=R((8, 8), 8), scale=1.5, mask=(R((8, 8), 9) > 0.5) * R((8, 8), 10))),
        'rescale-shape-order': lambda: (lentil.rescale, dict(img=R((8, 6), 8), scale=0.75, shape=(8, 6), order=1, mode='constant', unitary=False)),
        'rescale-identity': lambda: (lentil.rescale, dict(img=R((8, 8), 8), scale=1)),
        'normalize_power': lambda: (lentil.normalize_power, dict(array=R((4, 4), 9), power=2)),
        'boundary': lambda: (lentil.boundary, dict(x=mask())),
        'centroid': lambda: (lentil.centroid, dict(img=mask())),
        'circle': lambda: (lentil.circle, dict(shape=(9, 8), radius=3.25, shift=(1, 0))),
        'hexagon': lambda: (lentil.hexagon, dict(shape=(9, 9), radius=3.25, shift=(0, 1))),
        'rectangle': lambda: (lentil.rectangle, dict(shape=(9, 8), width=4, height=3, shift=(1, -1))),
        'rectangle-rot': lambda: (lentil.rectangle, dict(shape=(9, 8), width=4, height=3, shift=(1, -1), angle=20)),
        'spider': lambda: (lentil.spider, dict(shape=(9, 9), width=1.5, angle=30)),
        'hex_segments': lambda: (lentil.hex_segments, dict(rings=1, seg_radius=4.5, seg_gap=1)),
        'zernike': lambda: (lentil.zernike, dict(mask=mask(), index=5)),
        'zernike-coords': lambda: (lentil.zernike, dict(mask=mask(), index=7, rho=lentil.zernike_coordinates(mask())[0], theta=lentil.zernike_coordinates(mask())[1])),
        'zernike_compose': lambda: (lentil.zernike_compose, dict(mask=mask(), coeffs=np.array([0.1, 0.2, -0.3, 0.4]))),
        'zernike_basis': lambda: (lentil.zernike_basis, dict(mask=mask(), modes=np.array([2, 4, 3]))),
        'zernike_fit': lambda: (lentil.zernike_fit, dict(opd=R((9, 8), 10), mask=mask(), modes=[1, 2, 3])),
        'zernike_remove': lambda: (lentil.zernike_remove, dict(opd=R((9, 8), 10), mask=mask(), modes=[2, 3])),
        'zernike_coordinates': lambda: (lentil.zernike_coordinates, dict(mask=mask())),
        'power_spectrum': lambda: (lentil.power_spectrum, dict(mask=mask(), pixelscale=1e-3, rms=1e-9, half_power_freq=5, exp=3, seed=3)),
        'translation_defocus': lambda: (lentil.translation_defocus, dict(mask=mask(), f_number=10, translation=1e-4)),
        'jitter': lambda: (lentil.jitter, dict(img=R((5, 6), 11), scale=1.25)),
        'smear': lambda: (lentil.smear, dict(img=R((5, 6), 11), distance=2.0, angle=30)),
        'pixel': lambda: (lentil.detector.pixel, dict(img=R((5, 6), 11), oversample=2)),
        'pixelate': lambda: (lentil.detector.pixelate, dict(img=R((6, 6), 11), oversample=2)),
        'collect_charge': lambda: (lentil.detector.collect_charge, dict(img=R((2, 3, 3), 12, 0, 40), wave=np.array([450., 650.]), qe=np.array([0.5, 0.25]))),
        'collect_charge-spectrum': lambda: (lentil.detector.collect_charge, dict(img=R((2, 3, 3), 12, 0, 40), wave=np.array([450., 650.]), qe=spec())),
        'collect_charge_bayer': lambda: (lentil.detector.collect_charge_bayer, dict(img=R((2, 4, 4), 12, 0, 40), wave=np.array([450., 650.]), qe_red=0.5, qe_green=np.array([0.2, 0.3]), qe_blue=spec(), bayer_pattern='RGGB', oversample=2)),
        'adc': lambda: (lentil.detector.adc, dict(img=np.array([[3.0, 150.0], [99.0, 7.5]]), gain=[2.0 ** -6, 0.5], saturation_capacity=100)),
        'adc-cube-gain': lambda: (lentil.detector.adc, dict(img=np.array([[3.0, 150.0], [99.0, 7.5]]), gain=np.stack([np.full((2, 2), 2.0 ** -6), np.full((2, 2), 0.5)]))),
        'shot_noise': lambda: (lentil.detector.shot_noise, dict(img=R((3, 4), 13, 0, 50), seed=5)),
        'shot_noise-gaussian': lambda: (lentil.detector.shot_noise, dict(img=R((3, 4), 13, 2000, 5000), method='gaussian', seed=5)),
        'read_noise': lambda: (lentil.detector.read_noise, dict(img=R((3, 4), 13, 0, 50), electrons=3.0, seed=5)),
        'charge_diffusion': lambda: (lentil.detector.charge_diffusion, dict(img=R((6, 6), 14), sigma=0.5)),
        'dark_current': lambda: (lentil.detector.dark_current, dict(rate=20.5, shape=(3, 4), fpn_factor=0.2, seed=5)),
        'dark_current-nofpn': lambda: (lentil.detector.dark_current, dict(rate=20.5, shape=(3, 4))),
        'rule07': lambda: (lentil.detector.rule07_dark_current, dict(temperature=150, cutoff_wavelength=5e-6, pixelscale=18e-6, shape=(3, 4), fpn_factor=0.3, seed=5)),
        'spectrum-add': lambda: (lambda a, b: a + b, dict(a=spec(), b=specum() * 1 if False else spec())),
        'spectrum-mul-scalar': lambda: (lambda a: a * 2.5, dict(a=spec())),
        'spectrum-sample': lambda: (lambda a, wave: a.sample(wave), dict(a=spec(), wave=np.array([420., 480., 650.]))),
        'spectrum-integrate': lambda: (lambda a: a.integrate(420, 690, method='trapz'), dict(a=spec())),
        'spectrum-bin': lambda: (lambda a, wave: a.bin(wave, interp_method='trapz'), dict(a=spec(), wave=np.array([450., 550., 650.]))),
        'spectrum-asarray': lambda: (lambda a: a.asarray(), dict(a=spec())),
        'spectrum-copy': lambda: (lambda a: a.copy(), dict(a=spec())),
        'planck_radiance': lambda: (rad.planck_radiance, dict(wave=np.array([400., 500., 900.]), temp=5000., waveunit='nm', valueunit='photlam')),
        'planck_exitance': lambda: (rad.planck_exitance, dict(wave=np.array([0.4, 0.5, 0.9]), temp=5000., waveunit='um', valueunit='flam')),
        'vegaflux': lambda: (rad.vegaflux, dict(band='V', waveunit='um', valueunit='flam')),
        'blackbody': lambda: (rad.Blackbody, dict(wave=np.array([400., 500., 900.]), temp=4000.)),
        'path_transmission': lambda: (rad.path_transmission, dict(iterable=[rad.Material(transmission=spec(), emission=0.1), 0.5])),
        'pupil-ctor': lambda: (lentil.Pupil, dict(amplitude=R((6, 5), 3), opd=R((6, 5), 4, -1, 1) * WL, mask=(R((6, 5), 5) > 0.6) * 0.7, pixelscale=DX, focal_length=Z)),
        'plane-fit_tilt': lambda: (lambda p: p.fit_tilt(), dict(p=pupil())),
        'plane-rescale': lambda: (lambda p: p.rescale(2), dict(p=pupil())),
        'plane-rescale-identity': lambda: (lambda p: p.rescale(1), dict(p=pupil())),
        'plane-copy': lambda: (lambda p: p.copy(), dict(p=pupil())),
        'wavefront-mul': lambda: (lambda w, p: w * p, dict(w=lentil.Wavefront(WL, tilt=[1e-6, 0]), p=pupil())),
        'wavefront-field': lambda: (lambda w: w.field, dict(w=wf())),
        'wavefront-intensity': lambda: (lambda w: w.intensity, dict(w=wf())),
        'propagate_dft': lambda: (lambda w: lentil.propagate_dft(w, DU, shape=(5, 5), oversample=2), dict(w=wf())),
        'propagate_dft-mask': lambda: (lambda w, mask: lentil.propagate_dft(w, DU, shape=(5, 5), oversample=1, mask=mask), dict(w=wf(), mask=(R((5, 5), 6) > 0.9) * 1.0)),
        'propagate_fft': lambda: (lambda w: lentil.propagate_fft(w, DU, shape=(4, 4), oversample=1), dict(w=wf())),
        'scratch_shape': lambda: (lentil.scratch_shape, dict(wavelength=np.array([WL, 1.2 * WL]), dx=DX, du=DU, z=Z, oversample=2)),
        'field-mul': lambda: ((lambda a, b: a * b), dict(a=lentil.field.Field(rm.generic_complex((3, 3), seed, 3), offset=[1, 0]), b=lentil.field.Field(rm.generic_complex((2, 3), seed, 4), offset=[0, 1]))),
        'field-merge': lambda: (lentil.field.merge, dict(a=lentil.field.Field(rm.generic_complex((3, 3), seed, 3), offset=[0, 0]), b=lentil.field.Field(rm.generic_complex((2, 2), seed, 4), offset=[0, 0]))),
    }
    return C


def _dig_any(obj):
    if isinstance(obj, np.ndarray):
        return h(obj)
    if isinstance(obj, (list, tuple)):
        return tuple(_dig_any(o) for o in obj)
    if isinstance(obj, dict):
        return tuple((k, _dig_any(v)) for k, v in sorted(obj.items()))
    if hasattr(obj, 'wave') and hasattr(obj, 'value'):
        return ('spectrum', dig_spec(obj))
    if hasattr(obj, 'data') and isinstance(getattr(obj, 'data'), list):
        return ('wavefront', dig_wf(obj))
    if hasattr(obj, 'amplitude') and hasattr(obj, 'opd'):
        return ('plane', dig_plane(obj))
    if hasattr(obj, 'transmission'):
        return ('material', _dig_any(obj.transmission), _dig_any(obj.emission))
    if hasattr(obj, 'offset') and hasattr(obj, 'tilt'):
        return ('field', h(np.asarray(obj.data)), tuple(np.asarray(obj.offset).tolist()))
    return repr(obj)


def chk_probe(case, acc, seed):
    """one public call: inputs untouched, result independent of the inputs' memory, repeatable, and not a shared cached object"""
    name = case['name']
    cat = probe_catalogue(seed)
    engine.reset_library_state()
    np.seterr(**DEFAULT_ERRSTATE)
    np.random.seed(77)
    with warnings.catch_warnings():
        warnings.simplefilter('ignore')
        fn, args = cat[name]()
        d0 = _dig_any(args)
        g0, e0 = dig_rng(), np.geterr()
        try:
            r1 = fn(**args)
        except Exception as e:
            acc.violation(f'probe:{name}:raises:{type(e).__name__}', case, repr(e))
            return
        if _dig_any(args) != d0:
            acc.violation(f'probe:{name}:modifies-input', case, f'{name} changed one of its arguments')
        if np.geterr() != e0:
            acc.violation(f'probe:{name}:numpy-errstate', case, 'numpy error state changed')
            np.seterr(**DEFAULT_ERRSTATE)
        if ('seed' in args) and dig_rng() != g0:
            acc.violation(f'probe:{name}:global-rng', case, 'seeded call advanced the global generator')
        keep = _dig_any(r1)
        # the caller edits the result in place (it owns it): the next identical call, on fresh arguments, must not notice.
        # (A result that shares memory with an argument is not judged: the statement is about what the library writes.)
        for o in [a for a in _arrays_in(r1) if a.ndim >= 1 and a.size > 1]:
            try:
                o[...] = 7
            except (ValueError, TypeError):
                pass
        fn2, args2 = cat[name]()
        np.random.seed(12345)
        r2 = fn2(**args2)
        if _dig_any(r2) != keep:
            acc.violation(f'probe:{name}:not-repeatable', case, 'the identical call returned something else after the first result was edited in place / under another global random state')
        # the same call on read-only arguments: a function that does not modify its inputs has no need to write into them
        fn3, args3 = cat[name]()
        for o in _arrays_in(list(args3.values())):
            try:
                o.flags.writeable = False
            except ValueError:
                pass
        try:
            r3 = fn3(**args3)
            if _dig_any(r3) != keep:
                acc.violation(f'probe:{name}:read-only-arguments-change-result', case, 'the same call on read-only arguments returned something else')
        except ValueError as e:
            if 'read-only' in str(e):
                acc.violation(f'probe:{name}:writes-into-argument', case, f'with read-only arguments: {e!r}')
            else:
                raise
    acc.cls('probes')
    acc.case(case, outcome='probe')


class _Silent(engine.Acc):
    def violation(self, key, case, msg):
        pass


def rebuild(seed, frozen, hist):
    """A state is the history that reaches it: fresh world, cold library caches, events replayed.  This makes every
    hidden process-global (the DFT coordinate LRU cache, the numpy global generator) a function of the history."""
    engine.reset_library_state()
    np.seterr(**DEFAULT_ERRSTATE)
    w = World(seed, frozen)
    w.dead = False
    silent = _Silent()
    for i, name in enumerate(hist):
        step(w, name, hist[:i + 1], silent, {})
    return w


def t_bfs(arg, acc):
    seed, depth, frozen, first = arg['seed'], arg['depth'], arg['frozen'], arg['first']
    memo = acc.memo
    w0 = rebuild(seed, frozen, [])
    if first not in enabled(w0):
        return
    step(w0, first, [first], acc, memo)
    acc.transitions += 1
    acc.case({'kind': 'hist', 'frozen': frozen, 'events': [first]})
    frontier = [[first]]
    seen = {h(sorted(w0.digests().items()))}
    dead0 = getattr(w0, 'dead', False)
    if dead0:
        frontier = []
    for d in range(1, depth):
        nxt = []
        for hist in frontier:
            names = enabled(rebuild(seed, frozen, hist))
            for name in names:
                acc.transitions += 1
                w2 = rebuild(seed, frozen, hist)
                h2 = hist + [name]
                step(w2, name, h2, acc, memo)
                acc.case({'kind': 'hist', 'frozen': frozen, 'events': h2}, outcome=name)
                if getattr(w2, 'dead', False):
                    continue
                k = h(sorted(w2.digests().items()), h(w2.rng_state[1], w2.rng_state[2]) if name in ('global_rand', 'smear_random') else 0)
                if k not in seen:
                    seen.add(k)
                    nxt.append(h2)
        frontier = nxt
    acc.states += len(seen)
    acc.cls('frozen-histories' if frozen else 'writable-histories', len(seen))


def t_probe(arg, acc):
    for name in arg['names']:
        acc.transitions += 1
        chk_probe({'kind': 'probe', 'name': name}, acc, arg['seed'])


def run(tier, seed, acc, procs=None):
    depth = 4 if tier == 'quick' else 5
    tasks = []
    engine.setup_lentil()
    names = sorted(probe_catalogue(seed))
    for i in range(0, len(names), 8):
        tasks.append(('t_probe', {'seed': seed, 'names': names[i:i + 8]}))
    for frozen in (False, True):
        for first in EVENTS:
            tasks.append(('t_bfs', {'seed': seed, 'depth': depth, 'frozen': frozen, 'first': first}))
    acc.states += 1
    tasks += histories.tasks_for(PID, seed)        # pairwise call histories over the operations this property is anchored in
    engine.run_parallel(MOD, tasks, acc, procs, memo_merge=memo_merge)
    acc.cls('memo-keys', len(acc.memo))
    return {
        'rule': f'explicit-state search to depth {depth} over {len(EVENTS)} public API events on one shared pool of caller-owned arrays, a '
                'plane, wavefronts and two spectra, run once with writable arrays (byte digests of every pool item before/after each '
                'call) and once with the arrays frozen read-only; a memo table (event, argument digests) -> result digest merged over '
                'all histories and worker processes; plane states with equal (amplitude, mask, OPD + recorded tilt) must propagate '
                'to equal fields; seeded functions must leave the global generator untouched.',
        'bounds': {'depth': depth, 'events': list(EVENTS)},
        'assumptions': ['spectra are compared physically (a unit conversion in place is not a mutation)',
                        'fit_tilt(inplace=True) is given a plane-owned OPD array first, so only the plane is its documented target',
                        'documented in-place targets: insert -> OUT, scratch= -> SCR, fit_tilt(inplace) -> plane'],
        'require': {'probes': 60, 'writable-histories': 500, 'frozen-histories': 500, 'path-compared': 100, 'memo-keys': 40},
    }


def replay(case, acc):
    if case.get('kind') == 'histop':
        import os as _os
        return histories.chk_case(case, acc, int(_os.environ.get('VERIF_SEED', '0') or 0))
    seed = int(os.environ.get('VERIF_SEED', '0') or 0)
    if case.get('kind') == 'probe':
        return chk_probe(case, acc, seed)
    memo = {}
    # a history-dependence violation needs the history it disagreed with: that one is replayed first, sharing the memo
    for events in ([case['other']] if case.get('other') else []) + [case['events']]:
        w = rebuild(seed, case['frozen'], events[:-1])
        if not getattr(w, 'dead', False):
            step(w, events[-1], list(events), acc, memo)
