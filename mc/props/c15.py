"""C15 -- Spectrum integration, binning and resizing keep the spectrum well-formed."""
import itertools
import os
from fractions import Fraction as Fr

import numpy as np

from .. import engine, refmodel as rm
from .. import histories
from ..histories import t_callhist, t_cross      # worker tasks of the history harness (mc/histories.py)

PID = 'C15'
MOD = 'mc.props.c15'

GRIDS = {
    'u4': [400, 500, 600, 700],
    'u5': [400, 450, 500, 550, 600],
    'u7': [400, 450, 500, 550, 600, 650, 700],
    'n3': [400, 430, 520],
    'n5': [400, 410, 450, 520, 700],
    'n6': [350, 400, 480, 500, 640, 900],
    'pw7': [400, 410, 420, 470, 520, 570, 620],      # piecewise uniform: 10 nm steps, then 50 nm steps (w9-C15-1)
}


UF = {'nm': 1.0, 'um': 1e-3, 'm': 1e-9, 'angstrom': 10.0}


def spec(grid, values, unit='nm'):
    from lentil.radiometry import Spectrum
    f = UF[unit]
    return Spectrum(np.array(grid, dtype=float) * f, np.array(values, dtype=float), waveunit=unit)


def exact_pl_integral(grid, values, a, b):
    """exact integral of the piecewise-linear interpolant between sample points a <= b (Fractions)"""
    tot = Fr(0)
    for k in range(len(grid) - 1):
        if grid[k] >= a and grid[k + 1] <= b:
            tot += Fr(values[k] + values[k + 1]) * Fr(grid[k + 1] - grid[k]) / 2
    return tot


def chk_integrate(case, acc, seed):
    gname = case['grid']
    g = GRIDS[gname]
    n = len(g)
    uniform = gname.startswith('u')
    basis = [[1 if i == k else 0 for i in range(n)] for k in range(n)]
    gen = [int(v) for v in (rm.generic_real((n,), seed, tag=3) * 16)]
    gen2 = [int(v) for v in (rm.generic_real((n,), seed, tag=4) * 16)]
    for method in ('trapz', 'simps'):
        for i, j in itertools.combinations(range(n), 2):
            a, b = g[i], g[j]
            if method == 'simps' and j - i < 2:
                continue
            sub = dict(case, method=method, start=a, end=b)
            acc.transitions += 1
            try:
                Ie = [spec(g, e).integrate(a, b, method=method) for e in basis]
                Ig = spec(g, gen).integrate(a, b, method=method)
                Ig2 = spec(g, gen2).integrate(a, b, method=method)
                Isum = spec(g, [2 * x - 3 * y for x, y in zip(gen, gen2)]).integrate(a, b, method=method)
            except Exception as e:
                acc.violation(f'integrate:raises:{type(e).__name__}', sub, repr(e))
                continue
            scale = (b - a) * 16
            # linear in the values (basis vectors pin the functional)
            if abs(Ig - sum(c * I for c, I in zip(gen, Ie))) > 1e-10 * scale or abs(Isum - (2 * Ig - 3 * Ig2)) > 1e-10 * scale:
                acc.violation(f'integrate:{method}:linearity', sub, 'integral is not linear in the values')
            if method == 'trapz':
                ex = float(exact_pl_integral(g, gen, a, b))
                if abs(Ig - ex) > 1e-10 * scale:
                    acc.violation('integrate:trapz:piecewise-linear-exact', sub, f'trapz = {Ig}, exact piecewise-linear integral = {ex}')
                for m in range(i + 1, j):
                    parts = spec(g, gen).integrate(a, g[m], method='trapz') + spec(g, gen).integrate(g[m], b, method='trapz')
                    if abs(parts - Ig) > 1e-10 * scale:
                        acc.violation('integrate:trapz:additivity', dict(sub, split=g[m]), f'[{a},{g[m]}] + [{g[m]},{b}] = {parts} != {Ig}')
            else:
                # Simpson: exact for a straight line on any grid with an odd number of samples
                lin_vals = [3 + 2 * (x - g[0]) / 10 for x in g]
                Il = spec(g, lin_vals).integrate(a, b, method='simps')
                exl = 3 * (b - a) + ((b - g[0]) ** 2 - (a - g[0]) ** 2) / 10
                if abs(Il - exl) > 1e-9 * abs(exl):
                    acc.violation('integrate:simps:linear-exact', sub, f'simpson of a straight line = {Il} != {exl}')
            acc.cls('integrate')
    # the same spectrum expressed in another wavelength unit (bounds in that unit): the closed range [start, end] selects the
    # same samples whatever the magnitude of the numbers (metres: spacings of 1e-8 and below)
    for unit in UF:
        if unit == 'nm':
            continue
        f = UF[unit]
        for i, j in itertools.combinations(range(n), 2):
            sub = dict(case, method='trapz', start=g[i], end=g[j], unit=unit)
            acc.transitions += 1
            try:
                v = spec(g, gen, unit).integrate(g[i] * f, g[j] * f, method='trapz')
            except Exception as e:
                acc.violation(f'integrate:raises:{type(e).__name__}:{unit}', sub, repr(e))
                continue
            ex = float(exact_pl_integral(g, gen, g[i], g[j])) * f
            if abs(v - ex) > 1e-9 * (g[-1] - g[0]) * 16 * f:
                acc.violation(f'integrate:trapz:piecewise-linear-exact:{unit}', sub, f'trapz = {v}, exact piecewise-linear integral = {ex} ({unit})')
        acc.cls(f'integrate:unit={unit}')
    # bounds beyond the sampled range select what is there: the integral is that over the sampled range
    for method in ('trapz', 'simps'):
        if method == 'simps' and n < 3:
            continue
        full = spec(g, gen).integrate(g[0], g[-1], method=method)
        for a, b in ((g[0] - 25, g[-1]), (g[0], g[-1] + 40), (g[0] - 1, g[-1] + 1), (1e-3, 1e9)):
            v = spec(g, gen).integrate(a, b, method=method)
            if abs(v - full) > 1e-10 * (g[-1] - g[0]) * 16:
                acc.violation(f'integrate:{method}:bounds-beyond-range', dict(case, start=a, end=b), f'integrate({a}, {b}) = {v} but the integral over the sampled range is {full}')
        half = spec(g, gen).integrate(g[0] - 25, g[n // 2], method='trapz') + spec(g, gen).integrate(g[n // 2], g[-1] + 3, method='trapz')
        if abs(half - spec(g, gen).integrate(method='trapz')) > 1e-10 * (g[-1] - g[0]) * 16:
            acc.violation('integrate:trapz:additivity', dict(case, split=g[n // 2], beyond=True), 'additivity fails when the outer bounds lie beyond the sampled range')
    # default bounds = whole range
    s = spec(g, gen)
    if abs(s.integrate(method='trapz') - float(exact_pl_integral(g, gen, g[0], g[-1]))) > 1e-9 * (g[-1] - g[0]) * 16:
        acc.violation('integrate:default-bounds', case, 'integrate() without bounds is not the integral over the whole range')
    try:
        s.integrate(method='bogus')
        acc.violation('integrate:unknown-method-accepted', case, 'unknown method accepted')
    except ValueError:
        pass
    acc.case(case, outcome='integrate')


CENTRES = {
    'c2': [450, 550], 'c3': [450, 500, 550], 'c4': [440, 480, 520, 560], 'c5': [420, 460, 500, 540, 580],
    'cn3': [440, 470, 560], 'cn4': [430, 450, 520, 580],
    'cn5h': [455, 480, 505, 540, 565],            # half-spacings 12.5 / 17.5: the bin edges are not integers
    'c4h': [455, 480, 505, 530],
}


def chk_bin(case, acc, seed):
    cname, ends, rule, pp, unit = case['centres'], case['ends'], case['rule'], case['preserve'], case['unit']
    sunit = case.get('sunit', unit)             # the unit the spectrum is held in when bin() is called
    f = UF[unit]
    c = np.array(CENTRES[cname], dtype=float)
    uniform_c = cname.startswith('c') and not cname.startswith('cn')
    # data grid: uniform, wider than the bins (so fill values never enter)
    g = list(range(300, 751, 10))
    n = len(g)
    kw = dict(interp_method=rule, ends=ends, preserve_power=pp, waveunit=unit)
    sub = dict(case)
    cpass = c * f
    if case.get('cdtype') == 'int':
        cpass = np.array(CENTRES[cname], dtype=np.int64)          # centres handed over as an integer array (nm only)
        unit = unit + ':integer-centres'                          # part of every finding key of this case
        acc.cls('bin:integer-centres')
    # (1) one value per centre, linear spectrum integrates exactly over each bin
    a0, b0 = 2.0, 0.004
    lin_vals = [a0 + b0 * x for x in g]
    try:
        bins = np.asarray(spec(g, lin_vals, sunit).bin(cpass, **kw))
    except Exception as e:
        acc.violation(f'bin:raises:{type(e).__name__}', sub, repr(e))
        acc.case(case, outcome='raise')
        return
    if bins.shape != c.shape:
        acc.violation('bin:length', sub, f'{bins.shape} values for {len(c)} centres')
        return
    d = np.diff(c) / 2
    mids = c[:-1] + d
    edges = np.concatenate([[c[0] - d[0]], mids, [c[-1] + d[-1]]]) if ends == 'symmetric' else np.concatenate([[c[0]], mids, [c[-1]]])
    exact = np.array([(a0 * (edges[k + 1] - edges[k]) + b0 * (edges[k + 1] ** 2 - edges[k] ** 2) / 2) for k in range(len(c))]) * f
    s = spec(g, lin_vals, case['unit'])
    tot = s.integrate((c[0]) * f, (c[-1]) * f, method=rule)
    applicable = (rule == 'trapz') or uniform_c
    if applicable:
        if not pp:
            if not np.allclose(bins, exact, rtol=1e-9):
                acc.violation(f'bin:{rule}:{ends}:linear-exact:{unit}', sub, f'bins {bins} != exact integrals of the linear spectrum {exact}')
        else:
            if not np.isclose(np.sum(bins), tot, rtol=1e-10):
                acc.violation(f'bin:{rule}:{ends}:preserve-power:{unit}', sub, f'sum(bins) = {np.sum(bins)} != integral over the centre span {tot}')
            # shape of the distribution unchanged by the renormalisation
            if not np.allclose(bins / np.sum(bins), exact / np.sum(exact), rtol=1e-9):
                acc.violation(f'bin:{rule}:{ends}:preserve-power-shape:{unit}', sub, 'renormalised bins are not proportional to the exact bin integrals')
        # (2) non-negativity: every unit vector (complete by linearity when not renormalised); dense positive payload otherwise
        if not pp:
            for k in range(n):
                e = [0.0] * n; e[k] = 1.0
                bk = np.asarray(spec(g, e, sunit).bin(cpass, **kw))
                if np.any(bk < 0):
                    acc.violation(f'bin:{rule}:negative', dict(sub, impulse=g[k]), f'negative bin {bk.min()} for a non-negative spectrum')
                    break
        else:
            pos = rm.generic_real((n,), seed, tag=9, lo=0.1, hi=2.0)
            sp = spec(g, pos, sunit)
            bk = np.asarray(sp.bin(cpass, **kw))
            if np.any(bk < 0) or not np.all(np.isfinite(bk)):
                acc.violation(f'bin:{rule}:negative', sub, 'negative / non-finite bin for a positive spectrum')
            # kinked data: the two quadrature rules give different integrals, the bins must sum to the one of the rule used
            want = spec(g, pos, case['unit']).integrate(c[0] * f, c[-1] * f, method=rule)
            if not np.isclose(np.sum(bk), want, rtol=1e-10):
                acc.violation(f'bin:{rule}:{ends}:preserve-power:{unit}', dict(sub, payload='kinked'),
                              f'sum(bins) = {np.sum(bk)} != integral over the centre span with the same rule {want}')
    acc.cls(f'bin:{rule}:{unit}')
    if sunit != unit:
        acc.cls('bin:foreign-unit')
    acc.case(case, nontrivial=applicable, outcome=f'{rule}-{ends}-{pp}-{unit}')


def chk_crop(case, acc, seed):
    """crop keeps exactly the samples inside the closed range, whatever unit (and so magnitude) the wavelengths have"""
    unit, gname = case['unit'], case['grid']
    g = np.array([400 + 5 * k for k in range(9)], float) if gname in ('coarse', 'int') else np.array([500 + 0.002 * k for k in range(9)], float)
    w = g * UF[unit]
    if gname == 'int':
        w = np.array([400 + 5 * k for k in range(9)], dtype=np.int64)      # integer-typed wavelengths, fractional limits (w9-C15-2)
    vals = 1.0 + np.arange(len(w))
    pts = sorted(set(w.tolist()) | set(((w[:-1] + w[1:]) / 2).tolist()) | {w[0] - (w[1] - w[0]) / 2, w[-1] + (w[1] - w[0]) / 2})
    if gname == 'int':
        pts = sorted(set(pts) | {float(x) + 0.5 for x in w} | {float(x) - 0.25 for x in w})      # limits whose floor / ceiling is a sample
    from lentil.radiometry import Spectrum
    for i, lo in enumerate(pts):
        for hi in pts[i:]:
            exp = [(float(a), float(b)) for a, b in zip(w, vals) if lo <= a <= hi]
            if not exp:
                continue
            s = Spectrum(w.copy(), vals.copy(), waveunit=unit)
            sub = dict(case, lo=lo, hi=hi)
            try:
                s.crop(lo, hi)
            except Exception as e:
                acc.violation(f'crop:raises:{type(e).__name__}', sub, repr(e))
                return
            got = list(zip(np.asarray(s.wave, float).tolist(), np.asarray(s.value, float).tolist()))
            if got != exp:
                acc.violation(f'crop:closed-range:{unit}', sub, f'crop({lo!r}, {hi!r}) kept {[a for a, _ in got]}, the samples inside the closed range are {[a for a, _ in exp]}')
                return
            acc.transitions += 1
    acc.cls('crop-units')
    acc.case(case, outcome='crop')


def chk_blackbody_twin(case, acc, seed):
    """a Blackbody is a Spectrum: integration, binning and every resizing operation (all but sample / resample, which re-evaluate the
    Planck law by design) give what they give for a plain Spectrum holding the same wavelengths and values"""
    import sys
    rad = sys.modules['lentil.radiometry']
    wu, vu = case['wu'], case['vu']
    f = UF[wu]
    grid = np.array([400., 450., 500., 550., 600., 650., 700.]) * f

    def pair():
        bb = rad.Blackbody(grid.copy(), 5000., waveunit=wu, valueunit=vu) if case['kind2'] == 'planck' else rad.Blackbody.vegamag(grid.copy(), 5000., 3.0, 'V', waveunit=wu, valueunit='photlam')
        tw = rad.Spectrum(np.array(bb.wave, copy=True), np.array(bb.value, copy=True), waveunit=bb.waveunit, valueunit=bb.valueunit)
        return bb, tw
    other = {'nm': 'um', 'um': 'nm'}[wu]
    fo = UF[other]
    ops = {
        'integrate': lambda s: s.integrate(450. * f, 650. * f, method='trapz'),
        'integrate-all': lambda s: s.integrate(method='simps'),
        'crop': lambda s: s.crop(450. * f, 650. * f),
        'trim': lambda s: s.trim(0.5),
        'pad': lambda s: s.pad((300. * f, 800. * f)),
        'copy': lambda s: s.copy(),
        'append-copy': lambda s: s.append(rad.Spectrum((710. + 10 * np.arange(7)) * f, 1. + np.arange(7), waveunit=wu, valueunit=s.valueunit), copy=True),
        'append': lambda s: s.append(rad.Spectrum((710. + 10 * np.arange(7)) * f, 1. + np.arange(7), waveunit=wu, valueunit=s.valueunit)),
        'to-other': lambda s: s.to(other),
    }
    def state(s):
        if s is None or not hasattr(s, 'wave'):
            return s
        return (np.array(s.wave, float), np.array(s.value, float), s.waveunit, s.valueunit)
    def same(a, b):
        if isinstance(a, tuple) and isinstance(b, tuple) and len(a) == 4:
            return a[2:] == b[2:] and a[0].shape == b[0].shape and np.allclose(a[0], b[0], rtol=1e-12) and np.allclose(a[1], b[1], rtol=1e-9, atol=0)
        if a is None or b is None:
            return a is b
        return np.shape(a) == np.shape(b) and np.allclose(np.asarray(a, float), np.asarray(b, float), rtol=1e-9, atol=0)
    for name, fn in ops.items():
        bb, tw = pair()
        try:
            rb, rt = fn(bb), fn(tw)
        except Exception as e:
            acc.violation(f'blackbody:{name}:raises:{type(e).__name__}', dict(case, op=name), repr(e))
            continue
        rb2, rt2 = (state(rb), state(rt)) if hasattr(rb, 'wave') or hasattr(rt, 'wave') else (rb, rt)
        if not same(rb2, rt2):
            acc.violation(f'blackbody:{name}:result', dict(case, op=name), f'{name} of a Blackbody gives {rb2 if not isinstance(rb2, tuple) else rb2[1][:4]}, of the plain Spectrum with the same samples {rt2 if not isinstance(rt2, tuple) else rt2[1][:4]}')
        if not same(state(bb), state(tw)):
            acc.violation(f'blackbody:{name}:state', dict(case, op=name), f'after {name} the Blackbody holds other samples than the plain Spectrum')
        acc.transitions += 1
    # binning re-evaluates the Planck law at the bin edges: the bins asked for in another wavelength unit are those of the same
    # source built in that unit to begin with (per-unit densities scale with the unit), and preserve_power keeps their sum
    if case['kind2'] == 'planck':
        c_nm = np.array([450., 500., 550., 600.])
        for rule in ('trapz', 'simps'):
            for pp in (True, False):
                try:
                    a = np.asarray(rad.Blackbody(grid.copy(), 5000., waveunit=wu, valueunit=vu).bin(c_nm * fo, interp_method=rule, preserve_power=pp, waveunit=other), float)
                    b = np.asarray(rad.Blackbody(grid / f * fo, 5000., waveunit=other, valueunit=vu).bin(c_nm * fo, interp_method=rule, preserve_power=pp, waveunit=other), float)
                except Exception as e:
                    acc.violation(f'blackbody:bin:raises:{type(e).__name__}', dict(case, rule=rule, preserve=pp), repr(e))
                    continue
                if a.shape != b.shape or not np.all(np.isfinite(a)) or not np.allclose(a, b, rtol=1e-9, atol=0) or not np.all(a > 0):
                    acc.violation('blackbody:bin:other-unit', dict(case, rule=rule, preserve=pp), f'a {wu} Blackbody binned in {other}: {a}; the same source built in {other}: {b}')
    acc.cls('blackbody-twin')
    acc.case(case, outcome='bb-twin')


def chk_bin_errors(case, acc, seed):
    s = spec(GRIDS['u7'], [1] * 7)
    for bad, kw in (([500], {}), ([450, 550], {'ends': 'bogus'}), ([450, 550], {'interp_method': 'bogus'})):
        try:
            s.bin(np.array(bad, float), **kw)
            acc.violation('bin:bad-argument-accepted', dict(case, arg=str((bad, kw))), 'invalid argument accepted')
        except ValueError:
            pass
        except Exception as e:
            acc.violation('bin:bad-argument-wrong-exception', dict(case, arg=str((bad, kw))), repr(e))
    acc.case(case, outcome='bin-errors')


# ---- E2: resizing histories ----------------------------------------------------------------------------------
STARTS = {
    'uniform': ([400, 450, 500, 550, 600, 650, 700], [1.5, 0.7, 2.0, 1.1, 0.4, 1.9, 0.8]),
    'zero-ends': ([400, 450, 500, 550, 600, 650, 700], [0, 0, 2.0, 1e-5, 0.4, 0, 0]),
    'nonuniform': ([400, 410, 450, 520, 700], [1.0, 2.0, 0.5, 1.5, 0.25]),
    'all-zero': ([400, 500, 600], [0, 0, 0]),
    'two': ([480, 620], [1.0, 3.0]),
    'neg-dominant': ([400, 450, 500, 550, 600, 650, 700], [0, 0.3, -5.0, 1.0, 0.2, 1e-5, 0]),
}
EVENTS = [
    ('crop', 450, 650), ('crop', 400, 700), ('crop', 425, 575), ('crop', 300, 900), ('crop', 500, 500),
    ('trim', 1e-4), ('trim', 0.5), ('trim', 0.1),
    ('pad', (300, 800), 'min', 'constant', None), ('pad', (350, 700), 'min', 'edge', None), ('pad', (390, 710), 20, 'constant', (1, 2)),
    ('pad', (-5, 800), 'min', 'constant', None),
    ('append', 'legal'), ('append', 'overlap'), ('append', 'longer'), ('append', 'notspectrum'), ('append', 'interleaved'), ('append', 'legal-copy'),
    ('resample', 'inside'), ('resample', 'nodes'), ('resample', 'decreasing'), ('resample', 'duplicate'), ('resample', 'nonpositive'), ('resample', 'zero'), ('resample', 'decreasing-uint'), ('resample', 'duplicate-uint'),
    ('resample', 'wider'),
]


def apply_event(s, ev):
    """apply to the real Spectrum; returns (exception or None, extra)"""
    from lentil.radiometry import Spectrum
    kind = ev[0]
    try:
        if kind == 'crop':
            s.crop(ev[1], ev[2])
        elif kind == 'trim':
            s.trim(ev[1])
        elif kind == 'pad':
            kw = {} if ev[4] is None else {'values': ev[4]}
            s.pad(ev[1], sampling=ev[2], mode=ev[3], **kw)
        elif kind == 'append':
            n = len(s.wave)
            top = float(np.max(s.wave)) if n else 500.0
            if ev[1] in ('legal', 'legal-copy'):
                other = Spectrum(top + 10.0 * np.arange(1, n + 1), 0.5 + np.arange(n))
            elif ev[1] == 'overlap':
                other = Spectrum(np.array(s.wave, copy=True), np.ones(n))
            elif ev[1] == 'longer':
                other = Spectrum(top + 10.0 * np.arange(1, n + 2), np.ones(n + 1))
            elif ev[1] == 'interleaved':
                other = Spectrum(np.array(s.wave) + 5.0, np.ones(n))
            else:
                other = [1, 2, 3]
            if ev[1] == 'legal-copy':
                return None, s.append(other, copy=True)
            s.append(other)
        elif kind == 'resample':
            w = np.asarray(s.wave, float)
            lo, hi = (w.min(), w.max()) if len(w) else (400.0, 700.0)
            grid = {'inside': np.linspace(lo + (hi - lo) * 0.1, hi - (hi - lo) * 0.1, 6),
                    'nodes': w[::2] if len(w) > 2 else w,
                    'decreasing': np.array([lo + 0.5 * (hi - lo), lo + 0.25 * (hi - lo), hi]),
                    'duplicate': np.array([lo, lo, hi]),
                    'nonpositive': np.array([-1.0, lo, hi]),
                    'zero': np.array([0.0, lo, hi]),
                    'decreasing-uint': np.array([lo + 0.5 * (hi - lo), lo + 0.25 * (hi - lo), hi]).astype(np.uint16),
                    'duplicate-uint': np.array([lo, lo, hi]).astype(np.uint32),
                    'wider': np.linspace(lo * 0.9, hi * 1.1, 5)}[ev[1]]
            s.resample(grid)
        return None, None
    except Exception as e:
        return e, None


def wellformed(s):
    w, v = np.asarray(s.wave), np.asarray(s.value)
    if w.shape != v.shape or w.ndim != 1:
        return f'wave has shape {w.shape} but value has shape {v.shape}'
    if len(w) > 1 and not np.all(np.diff(w) > 0):
        return 'wavelength grid is not strictly increasing'
    if np.any(w <= 0):
        return 'non-positive wavelength'
    return None


def chk_hist(case, acc, seed):
    """replays one history from its start (used by BFS for the last step, and by --replay)"""
    from lentil.radiometry import Spectrum
    g, v = STARTS[case['init']]
    s = Spectrum(np.array(g, float), np.array(v, float))
    for i, evi in enumerate(case['events']):
        ok = step_check(s, EVENTS[evi], dict(case, upto=i), acc)
        if not ok:
            return None
    return s


def queries(s):
    """read-only queries (they may populate caches inside the object): sample, bin, integrate"""
    w = np.asarray(s.wave, float)
    if len(w) < 2:
        return None
    lo, hi = w.min(), w.max()
    probe = np.linspace(lo - 0.1 * (hi - lo), hi + 0.1 * (hi - lo), 9)
    out = [np.asarray(s.sample(probe), float), np.asarray(s.sample(probe, method='nearest', fill_value=0), float), float(s.integrate(method='trapz'))]
    try:
        out.append(np.asarray(s.bin(np.linspace(lo, hi, 4), interp_method='trapz', preserve_power=False), float))
    except Exception as e:
        out.append(repr(type(e)))
    return out


def step_check(s, ev, sub, acc):
    from lentil.radiometry import Spectrum
    w0, v0, u0 = np.array(s.wave, copy=True), np.array(s.value, copy=True), s.waveunit
    try:
        queries(s)                      # the object is used (sampled / binned) before it is edited
    except Exception:
        pass
    exc, extra = apply_event(s, ev)
    # whatever happened before, read-only queries answer for the spectrum as it is now
    if wellformed(s) is None and len(np.asarray(s.wave)) >= 2 and s.waveunit == 'nm':
        try:
            got = queries(s)
            ref = queries(Spectrum(np.array(s.wave, copy=True), np.array(s.value, copy=True)))
            same = all((isinstance(a, str) and a == b) or (not isinstance(a, str) and np.allclose(a, b, rtol=1e-12, atol=1e-12, equal_nan=True)) for a, b in zip(got, ref))
            if not same:
                acc.violation(f'resize:{ev[0]}:stale-queries', sub, f'after {ev} sample/bin/integrate answer differently from a fresh spectrum with the same wave and value')
                return False
        except Exception as e:
            acc.violation(f'resize:{ev[0]}:queries-raise:{type(e).__name__}', sub, repr(e))
            return False
    kind = ev[0]
    label = f'{kind}:{ev[1]}' if kind in ('append', 'resample') else kind
    bad = wellformed(s)
    if bad:
        acc.violation(f'resize:{label}:{"refused" if exc is not None else "done"}:malformed', sub,
                      f'after {ev} ({"raised " + repr(exc) if exc is not None else "returned"}): {bad}')
        return False
    w1, v1 = np.asarray(s.wave), np.asarray(s.value)
    if exc is not None and kind == 'trim' and len(v0) and np.max(v0) > 0 and ev[1] < 1:
        acc.violation(f'resize:trim:raises:{type(exc).__name__}', sub, f'trim({ev[1]}) of a spectrum whose maximum {np.max(v0)} is positive raised {exc!r}')
        return False
    legal = (kind == 'append' and ev[1] in ('legal', 'legal-copy') and len(w0) >= 1) or (kind == 'resample' and ev[1] in ('inside', 'nodes', 'wider') and len(w0) >= 2) \
        or (kind == 'pad' and len(w0) >= 2 and 0 < ev[1][0] < float(np.min(w0)) and ev[1][1] > float(np.max(w0))) or (kind == 'crop' and any(ev[1] <= a <= ev[2] for a in w0))
    if exc is not None and legal and not isinstance(exc, (ValueError,)):
        # (a ValueError may be the library's considered refusal of a degenerate spectrum; anything else on a legal edit is a failure)
        acc.violation(f'resize:{label if kind != "pad" else "pad"}:legal-edit-raises:{type(exc).__name__}', sub, f'{ev} on a {len(w0)}-sample spectrum raised {exc!r}')
        return False
    if exc is not None:
        acc.cls('refused-events')
        # a refused operation keeps the spectrum well-formed (checked above) and never alters a sample it retains; the
        # statement does not promise that nothing was removed (crop to a range without samples empties the spectrum and
        # then raises), so only retained samples are compared
        keep0 = {float(a): float(b) for a, b in zip(w0, v0)}
        if s.waveunit == u0:
            for a, b in zip(w1, v1):
                if float(a) not in keep0 or keep0[float(a)] != b:
                    acc.violation(f'resize:{label}:refusal-altered-samples', sub, f'{ev} raised {exc!r} and the sample at {a} is new or changed')
                    return False
            if kind == 'crop' and not all(ev[1] <= a <= ev[2] for a in w1) and len(w1) != len(w0):
                acc.violation('resize:crop:wrong-samples', sub, f'crop({ev[1]},{ev[2]}) raised {exc!r} half way: kept {w1.tolist()}')
                return False
        return True
    # retained samples are never altered
    keep = {float(a): float(b) for a, b in zip(w0, v0)}
    if kind == 'resample':
        for a, b in zip(w1, v1):
            if float(a) in keep and not np.isclose(b, keep[float(a)], rtol=1e-12, atol=1e-15):
                acc.violation('resize:resample:retained-sample-altered', sub, f'sample at {a} changed from {keep[float(a)]} to {b}')
                return False
    else:
        for a, b in zip(w1, v1):
            if float(a) in keep and b != keep[float(a)]:
                acc.violation(f'resize:{label}:retained-sample-altered', sub, f'sample at {a} changed from {keep[float(a)]} to {b}')
                return False
    if kind == 'crop':
        exp = [(a, b) for a, b in zip(w0, v0) if ev[1] <= a <= ev[2]]
        if [tuple(x) for x in zip(w1.tolist(), v1.tolist())] != [(float(a), float(b)) for a, b in exp]:
            acc.violation('resize:crop:wrong-samples', sub, f'crop({ev[1]},{ev[2]}) kept {w1.tolist()}, expected {[float(a) for a, _ in exp]}')
            return False
    elif kind == 'trim':
        if np.max(v0) > 0:
            idx = np.where(v0 / np.max(v0) > ev[1])[0]
            exp_w = w0[idx[0]: idx[-1] + 1]
        else:
            exp_w = w0
        if not np.array_equal(w1, exp_w):
            acc.violation('resize:trim:wrong-samples', sub, f'trim({ev[1]}) kept {w1.tolist()}, expected {exp_w.tolist()}')
            return False
    elif kind == 'pad':
        if not set(w0.tolist()) <= set(w1.tolist()):
            acc.violation('resize:pad:dropped-samples', sub, 'pad dropped existing samples')
            return False
        new = [a for a in w1.tolist() if a not in set(w0.tolist())]
        if any(w0.min() <= a <= w0.max() for a in new):
            acc.violation('resize:pad:inside', sub, 'pad inserted samples inside the existing range')
            return False
    elif kind == 'append':
        if ev[1] == 'legal-copy':
            if not (np.array_equal(w1, w0) and np.array_equal(v1, v0)):
                acc.violation('resize:append:copy-mutates', sub, 'append(copy=True) changed the spectrum')
                return False
            if extra is None or wellformed(extra) or len(extra.wave) != 2 * len(w0) or not np.array_equal(extra.wave[:len(w0)], w0):
                acc.violation('resize:append:copy-result', sub, 'append(copy=True) result malformed')
                return False
        elif ev[1] == 'legal':
            if len(w1) != 2 * len(w0) or not np.array_equal(w1[:len(w0)], w0) or not np.array_equal(v1[:len(w0)], v0):
                acc.violation('resize:append:legal', sub, 'legal append did not keep the original samples in front')
                return False
        else:
            # 'overlap', 'longer', 'interleaved', 'notspectrum': legal only if every appended wavelength lies above the old range
            added = w1[len(w0):] if len(w1) >= len(w0) and np.array_equal(w1[:len(w0)], w0) else None
            if added is None or len(added) == 0 or not np.all(added > w0.max()) or not np.array_equal(v1[:len(w0)], v0):
                acc.violation(f'resize:append:{ev[1]}:accepted', sub, f'illegal append ({ev[1]}) was accepted: {w0.tolist()} -> {w1.tolist()}')
                return False
    elif kind == 'resample':
        if ev[1] in ('decreasing', 'duplicate', 'nonpositive', 'zero', 'decreasing-uint', 'duplicate-uint'):
            acc.violation(f'resize:resample:{ev[1]}:accepted', sub, 'invalid wavelength grid accepted')
            return False
    return True


def t_bfs(arg, acc):
    from lentil.radiometry import Spectrum
    init, depth, seed = arg['init'], arg['depth'], arg['seed']
    g, v = STARTS[init]

    def canon(s):
        return (s.waveunit, np.asarray(s.wave).tobytes(), np.asarray(s.value).tobytes())

    s0 = Spectrum(np.array(g, float), np.array(v, float))
    seen = {canon(s0)}
    frontier = [(s0, [])]
    for d in range(depth):
        nxt = []
        for s, hist in frontier:
            for evi, ev in enumerate(EVENTS):
                acc.transitions += 1
                t = s.copy()
                h2 = hist + [evi]
                case = {'kind': 'hist', 'init': init, 'events': h2}
                ok = step_check(t, ev, dict(case, upto=len(h2) - 1), acc)
                acc.case(case, outcome=f'{ev[0]}-{len(np.asarray(t.wave))}')
                if not ok:
                    continue
                k = canon(t)
                if k not in seen and len(np.asarray(t.wave)) > 0:
                    seen.add(k)
                    nxt.append((t, h2))
        frontier = nxt
    acc.states += len(seen)
    acc.cls('resize-states', len(seen))


DISPATCH = {'bbtwin': chk_blackbody_twin, 'crop': chk_crop, 'integrate': chk_integrate, 'bin': chk_bin, 'binerr': chk_bin_errors, 'hist': lambda c, a, s: chk_hist(c, a, s)}


DISPATCH['histop'] = histories.chk_case

def t_static(arg, acc):
    seed = arg['seed']
    if arg['what'] == 'integrate':
        for gname in GRIDS:
            acc.states += 1
            chk_integrate({'kind': 'integrate', 'grid': gname}, acc, seed)
        chk_bin_errors({'kind': 'binerr'}, acc, seed)
        for wu in ('nm', 'um'):
            for vu in ('photlam', 'wlam'):
                chk_blackbody_twin({'kind': 'bbtwin', 'wu': wu, 'vu': vu, 'kind2': 'planck'}, acc, seed)
            chk_blackbody_twin({'kind': 'bbtwin', 'wu': wu, 'vu': 'photlam', 'kind2': 'vegamag'}, acc, seed)
    else:
        for cname in CENTRES:
            for ends in ('symmetric', 'inside'):
                for rule in ('trapz', 'simps'):
                    for pp in (False, True):
                        acc.transitions += 1
                        chk_bin({'kind': 'bin', 'centres': cname, 'ends': ends, 'rule': rule, 'preserve': pp, 'unit': arg['unit']}, acc, seed)
                        if arg['unit'] == 'nm':
                            chk_bin({'kind': 'bin', 'centres': cname, 'ends': ends, 'rule': rule, 'preserve': pp, 'unit': 'nm', 'cdtype': 'int'}, acc, seed)
                        other = {'nm': 'um', 'um': 'nm'}[arg['unit']]
                        chk_bin({'kind': 'bin', 'centres': cname, 'ends': ends, 'rule': rule, 'preserve': pp, 'unit': arg['unit'], 'sunit': other}, acc, seed)
        for unit in UF:
            for gname in ('coarse', 'fine'):
                chk_crop({'kind': 'crop', 'unit': unit, 'grid': gname}, acc, seed)
        chk_crop({'kind': 'crop', 'unit': 'nm', 'grid': 'int'}, acc, seed)


def run(tier, seed, acc, procs=None):
    depth = 3 if tier == 'quick' else 4
    tasks = [('t_static', {'seed': seed, 'what': 'integrate'}), ('t_static', {'seed': seed, 'what': 'bin', 'unit': 'nm'}),
             ('t_static', {'seed': seed, 'what': 'bin', 'unit': 'um'})]
    for init in STARTS:
        tasks.append(('t_bfs', {'seed': seed, 'init': init, 'depth': depth}))
    acc.states += 1
    acc.transitions += len(tasks)
    tasks += histories.tasks_for(PID, seed)        # pairwise call histories over the operations this property is anchored in
    engine.run_parallel(MOD, tasks, acc, procs)
    return {
        'rule': 'integrate: 6 grids (uniform / non-uniform, 3-7 samples) x unit-vector and generic values x all sample-point pairs '
                '(start, end) x {trapz, simps}; bin: 6 centre sets x {symmetric, inside} x {trapz, simps} x preserve_power x {nm, um}, '
                f'every unit impulse of the data grid for non-negativity; resizing: explicit-state search to depth {depth} over '
                f'{len(EVENTS)} events (crop x5, trim x2, pad x4, append x6 legal/illegal, resample x6 legal/illegal) from 5 start '
                'spectra, invariants checked after every event including refused ones.',
        'bounds': {'resize_depth': depth, 'events': len(EVENTS), 'starts': list(STARTS)},
        'assumptions': ["Simpson's rule is only judged for uniformly spaced centres / odd sample counts, as the statement says",
                        'exact piecewise-linear integrals in Fractions'],
        'require': {'integrate': 50, 'bin:trapz:nm': 20, 'bin:simps:um': 20, 'crop-units': 8, 'bin:foreign-unit': 40, 'bin:integer-centres': 30, 'blackbody-twin': 6},
        'expect': {'refused-events': 50, 'resize-states': 50},
    }


def replay(case, acc):
    if case.get('kind') == 'histop':
        import os as _os
        return histories.chk_case(case, acc, int(_os.environ.get('VERIF_SEED', '0') or 0))
    seed = int(os.environ.get('VERIF_SEED', '0') or 0)
    DISPATCH[case['kind']](case, acc, seed)
