"""C12 -- Zernike fit, compose and remove are mutually inverse for any mode set."""
import itertools
import os

import numpy as np

from .. import engine, refmodel as rm
from .. import histories
from ..histories import t_callhist, t_cross      # worker tasks of the history harness (mc/histories.py)

PID = 'C12'
MOD = 'mc.props.c12'


def masks(n):
    import lentil
    out = {}
    out['disc'] = lentil.circle((n, n), n / 2 - 1.5, antialias=False)
    out['disc-off'] = lentil.circle((n, n + 1), n / 2 - 3, shift=(1.5, -2), antialias=False)
    out['hexagon'] = lentil.hexagon((n, n), n / 2 - 1.5, antialias=False)
    a = lentil.circle((n, n), n / 4 - 0.5, shift=(0, -n / 4), antialias=False)
    b = lentil.circle((n, n), n / 4 - 0.5, shift=(0, n / 4), antialias=False)
    out['two-discs'] = np.clip(a + b, 0, 1)
    out['disc-antialiased'] = lentil.circle((n, n), n / 2 - 2.25, shift=(0.5, 0.25), antialias=True) * 3.0    # non-binary: fractional edge, value 3 inside
    return out


def orders(sub):
    sub = tuple(sorted(sub))
    res = [sub]
    if len(sub) > 1:
        res.append(tuple(reversed(sub)))
    if 2 < len(sub) <= 3:
        for p in itertools.permutations(sub):
            if p not in res:
                res.append(p)
    return res


def coords_for(mask, kind):
    import lentil
    if kind == 'default':
        return None, None
    if kind == 'global':
        # one coordinate system for a whole segmented aperture: this segment sits far off its axis
        n = mask.shape[0]
        rr, cc = np.meshgrid(np.arange(n) - n // 2 + 25 * n, np.arange(mask.shape[1]) - mask.shape[1] // 2 - 17.5 * n, indexing='ij')
        r = np.hypot(rr, cc)
        return r / r.max(), np.arctan2(rr, cc)
    return lentil.zernike_coordinates(mask, shift=(0.5, -0.25), rotate=30)


def chk(case, acc, seed):
    import lentil
    n, mname, modes, normalize, ckind = case['n'], case['mask'], list(case['modes']), case['normalize'], case['coords']
    mask = masks(n)[mname]
    rho, theta = coords_for(mask, ckind)
    kw = {} if rho is None else {'rho': rho, 'theta': theta}
    coords0 = None if rho is None else (rho.copy(), theta.copy())
    mask0 = mask.copy()
    on = mask != 0
    # conditioning of the chosen basis on this mask
    B = lentil.zernike_basis(mask, modes, vectorize=True, normalize=normalize, **kw)
    sv = np.linalg.svd(B[:, on.ravel()], compute_uv=False)
    cond = sv[0] / sv[-1] if sv[-1] > 0 else np.inf
    if not cond < 1e8:
        acc.cls('ill-conditioned-skipped')
        acc.case(case, nontrivial=False, outcome='skipped')
        return
    tolc = 1e-10 + 1e-13 * cond
    acc.cls('cond>=1e%d' % min(8, int(np.floor(np.log10(max(cond, 1))))))
    k = len(modes)
    gen = np.array([0.7, -1.3, 0.45, 2.1, -0.6, 0.9, 1.7, -0.35][:k]) * (1 + 0.1 * (seed % 8))
    # the generic vector also at nanometre scale (an OPD in metres) and with one coefficient 10^9 times smaller than the rest
    mixed = gen.copy(); mixed[0] *= 1e-9
    vecs = [np.eye(k)[i] for i in range(k)] + [gen * 3e-9, mixed, gen]
    sub_key = 'prefix' if sorted(modes) == list(range(1, k + 1)) else 'non-prefix'
    for vi, cvec in enumerate(vecs):
        sub = dict(case, coeff=vi)
        full = np.zeros(max(modes))
        for m, c in zip(modes, cvec):
            full[m - 1] = c
        opd = lentil.zernike_compose(mask, full, normalize=normalize, **kw)
        # compose == explicit sum of modes
        expl = sum(c * np.asarray(lentil.zernike(mask, m, normalize=normalize, **kw), dtype=float) for m, c in zip(modes, cvec))
        if rm.maxerr(opd, expl) > 1e-12 * np.max(np.abs(expl)):
            acc.violation('compose:index', sub, 'zernike_compose does not pair coefficient k with Noll index k+1')
        fit = lentil.zernike_fit(opd, mask, modes, normalize=normalize, **kw)
        cs = np.max(np.abs(cvec))
        if rm.maxerr(fit, cvec) > tolc * cs:
            acc.violation(f'fit:roundtrip:{sub_key}:{ckind}', sub, f'fit(compose(c)) = {np.round(fit, 6).tolist()} != c = {cvec.tolist()}')
        if vi == len(vecs) - 1:
            # the same OPD handed over in other memory layouts is the same OPD
            for lname, arr in (('fortran', np.asfortranarray(opd)), ('transposed-view', np.ascontiguousarray(opd.T).T), ('float32', opd.astype(np.float32))):
                f2 = lentil.zernike_fit(arr, mask, modes, normalize=normalize, **kw)
                if rm.maxerr(f2, fit) > (1e-6 * max(cond, 10) if lname == 'float32' else tolc) * np.max(np.abs(cvec)):
                    acc.violation(f'fit:memory-layout:{lname}', dict(sub, layout=lname), f'fit of the same OPD in {lname} layout: {np.round(f2, 6).tolist()} != {np.round(fit, 6).tolist()}')
                if normalize:
                    r2 = lentil.zernike_remove(arr, mask, modes, **kw)
                    r1 = lentil.zernike_remove(opd, mask, modes, **kw)
                    if rm.maxerr(np.asarray(r2, float)[on], np.asarray(r1, float)[on]) > (1e-6 * max(cond, 10) if lname == 'float32' else tolc * 10) * np.max(np.abs(opd)):
                        acc.violation(f'remove:memory-layout:{lname}', dict(sub, layout=lname), 'zernike_remove depends on the memory layout of the OPD')
        if normalize:
            # remove() has no normalize switch (always normalised modes)
            bump = (0.3 * np.asarray(lentil.zernike(mask, max(modes) + 3, **kw), dtype=float) + 0.05 * on * np.cos(np.arange(mask.size).reshape(mask.shape))) * np.max(np.abs(cvec))
            for name, o in (('pure', opd), ('mixed', opd + bump)):
                try:
                    res = lentil.zernike_remove(o, mask, modes, **kw)
                except Exception as e:
                    acc.violation(f'remove:raises:{type(e).__name__}:{ckind}', sub, repr(e))
                    continue
                scale = np.max(np.abs(o))
                # independent least-squares projection
                Bm = B[:, on.ravel()].T
                c_ls, *_ = np.linalg.lstsq(Bm, o[on], rcond=None)
                exp = o - np.tensordot(c_ls, B.reshape((k,) + mask.shape), axes=1)
                if rm.maxerr(res[on], exp[on]) > tolc * scale * 10:
                    acc.violation(f'remove:projection:{sub_key}:{ckind}', dict(sub, opd=name),
                                  f'residual differs from the least-squares projection by {rm.maxerr(res[on], exp[on]):.3e}')
                    continue
                rfit = lentil.zernike_fit(res, mask, modes, **kw)
                if np.max(np.abs(rfit)) > tolc * scale * 10:
                    acc.violation(f'remove:residual-coefficients:{sub_key}', dict(sub, opd=name), f'fitted coefficients of the residual: {rfit}')
                res2 = lentil.zernike_remove(res, mask, modes, **kw)
                if rm.maxerr(res2[on], res[on]) > tolc * scale * 10:
                    acc.violation(f'remove:idempotent:{sub_key}', dict(sub, opd=name), 'removing twice differs from removing once')
                if name == 'pure' and np.max(np.abs(res[on])) > tolc * scale * 10:
                    acc.violation(f'remove:pure-subset:{sub_key}', dict(sub, opd=name), f'an OPD made only of the removed modes is not reduced to zero (max {np.max(np.abs(res[on])):.3e})')
            acc.cls('remove')
        acc.transitions += 1
    if coords0 is not None and not (np.array_equal(rho, coords0[0]) and np.array_equal(theta, coords0[1])):
        acc.violation('coords:caller-arrays-modified', case, 'the rho/theta arrays supplied by the caller were modified')
    if not np.array_equal(mask, mask0):
        acc.violation('mask:caller-array-modified', case, 'the mask supplied by the caller was modified')
    acc.cls(sub_key)
    acc.cls('coords:' + ckind)
    acc.case(case, nontrivial=True, outcome=f'{sub_key}-{ckind}-{normalize}')


def chk_after_error(case, acc, seed):
    """fit / compose / remove give the same answers after calls that were (rightly) refused"""
    import lentil
    n = case['n']
    A, B_ = masks(n)['disc-off'], masks(n)['hexagon'][:, :n] if False else masks(n)['disc']
    B_ = np.pad(masks(n)['disc'], ((0, 0), (0, 1)))[:, :n + 1]        # another mask with the shape of A
    c = np.array([0.3, -0.2, 0.5, 0.1])

    def calls():
        o = lentil.zernike_compose(B_, c)
        return [o, lentil.zernike_fit(o, B_, [1, 2, 3, 4]), lentil.zernike_remove(o, B_, [2, 3]), lentil.zernike_basis(B_, [2, 5], vectorize=True, normalize=False)]

    engine.reset_library_state()
    cold = calls()
    bads = (lambda: lentil.zernike_basis(A, [0, 1, 2]), lambda: lentil.zernike_fit(np.zeros(A.shape), A, [2, -1]),
            lambda: lentil.zernike(A, 3, rho=np.ones(A.shape)), lambda: lentil.zernike_remove(np.zeros((3, 3)), A, [1, 2]),
            lambda: lentil.zernike_compose(A, [0.1, 0.2], rho=np.ones((2, 2)), theta=np.ones((2, 2))),
            lambda: lentil.zernike_basis(A, [3, 2, 0], vectorize=True), lambda: lentil.zernike_remove(np.zeros(A.shape), A, [2, 0]))
    for bi, bad in enumerate(bads):
        engine.reset_library_state()
        try:
            bad()
            refused = False
        except Exception:
            refused = True
        warm = calls()
        for k, (a, b) in enumerate(zip(cold, warm)):
            if not np.array_equal(np.asarray(a), np.asarray(b)):
                acc.violation('history:after-refused-call', dict(case, call=k, refused_call=bi),
                              f'after refused call #{bi} (raised: {refused}), call {k} on another mask of the same shape differs from the cold result by {rm.maxerr(np.asarray(a), np.asarray(b)):.3e}')
                break
    acc.cls('after-error')
    acc.case(case, outcome='after-error')


def chk_big(case, acc, seed):
    """a full-size aperture (600 x 600 and a 601 x 450 off-centre one, 6 - 8 modes): fit(compose(c)) = c, remove leaves nothing of the
    removed modes, also for a segment that lives in the last rows of the array"""
    import lentil
    shape, modes = tuple(case['shape']), list(case['modes'])
    rr, cc = np.indices(shape)
    if case['aperture'] == 'disc':
        mask = ((rr - shape[0] / 2) ** 2 + (cc - shape[1] / 2) ** 2 < (min(shape) / 2 - 3) ** 2).astype(float)
    else:                       # a small segment touching the last rows and columns
        mask = np.zeros(shape); mask[-40:-1, -60:-2] = 1
    c = np.array([0.3, -0.2, 0.5, 0.1, -0.4, 0.25, 0.15, -0.05][:len(modes)])
    try:
        B = np.asarray(lentil.zernike_basis(mask, modes))
        opd = np.einsum('i,ijk->jk', c, B)
        got = np.asarray(lentil.zernike_fit(opd, mask, modes), float)
        res = np.asarray(lentil.zernike_remove(opd, mask, modes), float)
    except Exception as e:
        acc.violation(f'big:raises:{type(e).__name__}', case, repr(e))
        return
    if got.shape != c.shape or not np.allclose(got, c, rtol=0, atol=1e-8):
        acc.violation('big:fit-roundtrip', case, f'fit(compose(c)) = {got} != {c} on a {shape} array')
    if np.max(np.abs(res)) > 1e-8:
        acc.violation('big:remove', case, f'remove leaves {np.max(np.abs(res)):.3e} of an OPD made of the removed modes')
    acc.cls('big-apertures')
    acc.case(case, outcome='big')


def t_mask(arg, acc):
    if arg['shard'] == 0 and arg['mask'] == 'disc':
        chk_after_error({'kind': 'aftererr', 'n': arg['n']}, acc, arg['seed'])
    if arg['shard'] == 1 and arg['mask'] == 'disc' and arg['n'] == 16:
        for shape in ((600, 600), (601, 450)):
            for ap in ('disc', 'corner-segment'):
                for modes in ([1, 2, 3, 4, 5, 6], [2, 3, 4, 5, 6, 7, 8, 11]):
                    chk_big({'kind': 'big', 'shape': shape, 'aperture': ap, 'modes': modes}, acc, arg['seed'])
    tier, seed = arg['tier'], arg['seed']
    jm = 6 if tier == 'quick' else 8
    for r in range(1, jm + 1):
        for sub in itertools.combinations(range(1, jm + 1), r):
            if (sum(sub) + r) % arg['nshard'] != arg['shard']:
                continue
            for modes in orders(sub):
                acc.states += 1
                for normalize in (True, False):
                    for ck in ('default', 'supplied') + (('global',) if arg['mask'] == 'disc' else ()):
                        chk({'kind': 'fit', 'n': arg['n'], 'mask': arg['mask'], 'modes': list(modes), 'normalize': normalize,
                             'coords': ck}, acc, seed)


def run(tier, seed, acc, procs=None):
    tasks = []
    for n in (16, 17):
        for m in ('disc', 'disc-off', 'hexagon', 'two-discs', 'disc-antialiased'):
            for sh in range(4):
                tasks.append(('t_mask', {'tier': tier, 'seed': seed, 'n': n, 'mask': m, 'shard': sh, 'nshard': 4}))
    acc.states += 1
    acc.transitions += len(tasks)
    tasks += histories.tasks_for(PID, seed)        # pairwise call histories over the operations this property is anchored in
    engine.run_parallel(MOD, tasks, acc, procs)
    jm = 6 if tier == 'quick' else 8
    return {
        'rule': f'4 masks (centred disc, off-centre disc on a non-square array, hexagon, two discs) on 16- and 17-sample arrays x all '
                f'{2 ** jm - 1} non-empty subsets of modes 1..{jm} in sorted, reversed and (<= 3 modes) every order x unit and generic '
                'coefficient vectors x normalise on/off x default / caller-supplied (shifted, rotated) coordinates; ill-conditioned '
                'bases (cond > 1e8 on the mask) are counted and skipped.',
        'bounds': {'modes': jm, 'array_sizes': [16, 17]},
        'assumptions': ['tolerance 1e-10 + 1e-13*cond (pseudo-inverse rounding)', 'remove compared with numpy.linalg.lstsq projection'],
        'require': {'non-prefix': 500, 'prefix': 40, 'coords:supplied': 500, 'remove': 1000, 'big-apertures': 8},
    }


def replay(case, acc):
    if case.get('kind') == 'histop':
        import os as _os
        return histories.chk_case(case, acc, int(_os.environ.get('VERIF_SEED', '0') or 0))
    seed = int(os.environ.get('VERIF_SEED', '0') or 0)
    {'aftererr': chk_after_error, 'big': chk_big}.get(case['kind'], chk)(case, acc, seed)
