"""C14 -- unit conversions are consistent and Planck's law is unit-independent."""
import itertools
import math
import os

import numpy as np

from .. import engine, refmodel as rm
from .. import histories
from ..histories import t_callhist, t_cross      # worker tasks of the history harness (mc/histories.py)

PID = 'C14'
MOD = 'mc.props.c14'

WNAMES = ['m', 'meter', 'um', 'micron', 'nm', 'nanometer', 'angstrom']
CANON = {'m': 'm', 'meter': 'm', 'um': 'um', 'micron': 'um', 'nm': 'nm', 'nanometer': 'nm', 'angstrom': 'angstrom'}
IN_M = {'m': 1.0, 'um': 1e-6, 'nm': 1e-9, 'angstrom': 1e-10}          # independent table: metres per unit
FNAMES = ['photlam', 'flam', 'wlam']
# physical constants as the library defines them (the statement is about consistency, not about CODATA digits)
H, C, K = 6.62606957e-34, 299792456, 1.3806488e-23


def wfactor(a, b):
    return IN_M[CANON[a.lower()]] / IN_M[CANON[b.lower()]]


def to_wlam_per_m(flux_per_m, unit, wave_m):
    """independent flux model: everything to W m^-2 m^-1"""
    if unit == 'wlam':
        return flux_per_m
    if unit == 'flam':
        return flux_per_m * 1e-3        # erg s^-1 cm^-2 = 1e-7 J / 1e-4 m^2
    if unit == 'photlam':
        return flux_per_m * H * C / wave_m
    raise ValueError(unit)


def from_wlam_per_m(w, unit, wave_m):
    if unit == 'wlam':
        return w
    if unit == 'flam':
        return w * 1e3
    if unit == 'photlam':
        return w * wave_m / (H * C)
    raise ValueError(unit)


def chk_wave_triple(case, acc, seed):
    import sys
    import lentil
    rad = sys.modules['lentil.radiometry']
    a, b, c = case['units']
    variants = lambda n: [n, n.upper(), n.capitalize()]
    try:
        fab = rad.Unit(a).to(b); fbc = rad.Unit(b).to(c); fac = rad.Unit(a).to(c)
        faa = rad.Unit(a).to(a); fba = rad.Unit(b).to(a)
    except Exception as e:
        acc.violation(f'wave:raises:{type(e).__name__}', case, repr(e))
        return
    cell = f'{CANON[a]}->{CANON[b]}'
    if not math.isclose(fab, wfactor(a, b), rel_tol=1e-12):
        acc.violation(f'wave:factor:{cell}', case, f'{a}->{b} factor {fab} != {wfactor(a, b)}')
    if not math.isclose(fab * fbc, fac, rel_tol=1e-12):
        acc.violation(f'wave:composition:{cell}', case, f'({a}->{b})*({b}->{c}) = {fab * fbc} != ({a}->{c}) = {fac}')
    if faa != 1:
        acc.violation(f'wave:identity:{CANON[a]}', case, f'{a}->{a} = {faa}')
    if not math.isclose(fab * fba, 1.0, rel_tol=1e-12):
        acc.violation(f'wave:roundtrip:{cell}', case, f'{a}->{b}->{a} = {fab * fba}')
    for av in variants(a):
        for bv in variants(b):
            try:
                if rad.Unit(av).to(bv) != fab:
                    acc.violation('wave:case-sensitivity', dict(case, names=[av, bv]), 'alias / case variant gives a different factor')
            except Exception as e:
                acc.violation('wave:alias-raises', dict(case, names=[av, bv]), repr(e))
    acc.cls('wave-triples')
    acc.case(case, outcome='wave')


def chk_flux_triple(case, acc, seed):
    import sys
    import lentil
    rad = sys.modules['lentil.radiometry']
    a, b, c = case['units']
    waves = np.array([1e-10, 3e-8, 1.1e-7, 200e-9, 551e-9, 1.3e-6, 9.7e-6, 1e-3, 2.0])       # X-ray to radio
    fluxes = np.array([3.0, 0.125, 7.0, 1e-3, 2.5, 4e7, 1.0, 1e-12, 5.0])
    if case.get('signed'):
        fluxes = fluxes * np.array([1, -1, 1, -1, -1, 1, -1, 0, 1.0])     # difference / continuum-subtracted spectra: both signs, an exact zero
    try:
        ab = rad.Unit(a).to(fluxes, b, waves)
        abc = rad.Unit(b).to(ab, c, waves)
        ac = rad.Unit(a).to(fluxes, c, waves)
        aa = rad.Unit(a).to(fluxes, a, waves)
        aba = rad.Unit(b).to(ab, a, waves)
    except Exception as e:
        acc.violation(f'flux:raises:{type(e).__name__}', case, repr(e))
        return
    cell = f'{a}->{b}'
    exp = from_wlam_per_m(to_wlam_per_m(fluxes, a, waves), b, waves)
    if not np.allclose(ab, exp, rtol=1e-9, atol=0):
        acc.violation(f'flux:factor:{cell}', case, f'{a}->{b}: {ab} != {exp}')
    if not np.allclose(abc, ac, rtol=1e-12, atol=0):
        acc.violation(f'flux:composition:{cell}', case, f'{a}->{b}->{c} != {a}->{c}')
    if not np.array_equal(aa, fluxes):
        acc.violation(f'flux:identity:{a}', case, f'{a}->{a} changes values')
    if not np.allclose(aba, fluxes, rtol=1e-12, atol=0):
        acc.violation(f'flux:roundtrip:{cell}', case, f'{a}->{b}->{a} does not return the input')
    acc.cls('flux-triples')
    acc.case(case, outcome='flux')


# ---- E2: sequences of Spectrum.to ----------------------------------------------------------------------------
def start_spectrum(wu, vu, seed, ival=False):
    from lentil.radiometry import Spectrum
    lam_m = np.array([4e-7, 4.5e-7, 5.5e-7, 7e-7, 9e-7])
    val = rm.generic_real((5,), seed, tag=5, lo=0.5, hi=2.0)
    if ival:
        val = np.array([2, 5, 3, 8, 6], dtype=np.int64) + (seed % 3)       # integer-valued samples (integer dtype)
    return Spectrum(lam_m / IN_M[wu], val, waveunit=wu, valueunit=vu)


def si(s):
    """(wavelength in m, value in W m^-2 m^-1 or unit-less)"""
    wu = s.waveunit
    lam = np.asarray(s.wave, float) * IN_M[wu]
    v = np.asarray(s.value, float)
    if s.valueunit is None:
        return lam, v
    return lam, to_wlam_per_m(v / IN_M[wu], s.valueunit, lam)


def chk_to_bfs(case, acc, seed):
    """explicit-state search: state = spectrum after a sequence of to() calls; dedup on the (rounded) implementation state"""
    wu, vu, depth = case['wu'], case['vu'], case['depth']
    s0 = start_spectrum(wu, vu, seed, case.get('ival', False))
    ref = si(s0)
    names = WNAMES + FNAMES

    def canon(s):
        return (s.waveunit, s.valueunit, tuple(np.round(np.log(np.abs(np.concatenate([s.wave, s.value]))), 9)))

    seen = {canon(s0)}
    frontier = [(s0, [])]
    for d in range(depth):
        nxt = []
        for s, hist in frontier:
            for u in names:
                acc.transitions += 1
                t = s.copy()
                h2 = hist + [u]
                sub = dict(case, seq=h2)
                before = (t.wave.copy(), t.value.copy(), t.waveunit, t.valueunit)
                try:
                    t.to(u)
                    exc = None
                except Exception as e:
                    exc = e
                if u in FNAMES and s.valueunit is None:
                    if not isinstance(exc, TypeError):
                        acc.violation('to:none-to-flux-not-refused', sub, f'converting a unit-less spectrum to {u}: {exc!r}')
                    if not (np.array_equal(t.wave, before[0]) and np.array_equal(t.value, before[1]) and t.waveunit == before[2] and t.valueunit == before[3]):
                        acc.violation('to:refusal-mutates', sub, 'refused conversion changed the spectrum')
                    acc.cls('refused')
                    continue
                if exc is not None and u in ('meter', 'micron', 'nanometer') and isinstance(exc, ValueError):
                    # long aliases are accepted by Unit() but not by Spectrum.to(): the statement does not demand them;
                    # a refusal must leave the spectrum untouched
                    if not (np.array_equal(t.wave, before[0]) and np.array_equal(t.value, before[1]) and t.waveunit == before[2] and t.valueunit == before[3]):
                        acc.violation('to:refusal-mutates', sub, 'refused conversion changed the spectrum')
                    acc.cls('alias-refused')
                    continue
                if exc is not None:
                    acc.violation(f'to:raises:{type(exc).__name__}', sub, repr(exc))
                    continue
                want_w = CANON[u.lower()] if u in WNAMES else s.waveunit
                want_v = u if u in FNAMES else s.valueunit
                if t.waveunit != want_w or t.valueunit != want_v:
                    acc.violation('to:unit-label', sub, f'units after to({u}): ({t.waveunit}, {t.valueunit}), expected ({want_w}, {want_v})')
                    continue
                got = si(t)
                kind = 'wave' if u in WNAMES else 'flux'
                dens = 'density' if s.valueunit else 'unitless'
                if not (np.allclose(got[0], ref[0], rtol=1e-10) and np.allclose(got[1], ref[1], rtol=1e-9)):
                    acc.violation(f'to:{kind}:{dens}:physical', sub,
                                  f'after {h2} the spectrum is no longer the same physical spectrum (wave ratio {got[0][0] / ref[0][0]:.6g}, value ratio {got[1][0] / ref[1][0]:.6g})')
                    continue
                # integral (density) / values (unit-less) preserved by a wavelength-unit change
                if kind == 'wave':
                    if s.valueunit is None:
                        if not np.allclose(t.value, s.value, rtol=1e-12):
                            acc.violation('to:wave:unitless:values-changed', sub, 'unit-less values changed with the wavelength unit')
                    else:
                        i0 = np.trapz(s.value, s.wave); i1 = np.trapz(t.value, t.wave)
                        if not math.isclose(i0, i1, rel_tol=1e-10):
                            acc.violation('to:wave:density:integral', sub, f'integral {i0} -> {i1}')
                acc.case(sub, outcome=f'{t.waveunit}/{t.valueunit}')
                k = canon(t)
                if k not in seen:
                    seen.add(k)
                    nxt.append((t, h2))
        frontier = nxt
    acc.states += len(seen)
    acc.cls('to-states', len(seen))
    # several units in one call are applied in order: to(a, b) == to(a); to(b)   (from the start state, all ordered pairs)
    short = ['m', 'um', 'nm', 'angstrom'] + FNAMES
    for a in short:
        for b in short:
            if vu is None and (a in FNAMES or b in FNAMES):
                continue
            acc.transitions += 1
            one, two = s0.copy(), s0.copy()
            sub = dict(case, seq=[[a, b]])
            try:
                one.to(a, b)
                two.to(a); two.to(b)
            except Exception as e:
                acc.violation(f'to:pair:raises:{type(e).__name__}', sub, repr(e))
                continue
            g1, g2 = si(one), si(two)
            if (one.waveunit, one.valueunit) != (two.waveunit, two.valueunit) or not (np.allclose(g1[0], g2[0], rtol=1e-12) and np.allclose(g1[1], g2[1], rtol=1e-10)) \
                    or not (np.allclose(g1[0], ref[0], rtol=1e-10) and np.allclose(g1[1], ref[1], rtol=1e-9)):
                kind = 'wave-then-flux' if (a not in FNAMES and b in FNAMES) else ('flux-then-wave' if (a in FNAMES and b not in FNAMES) else 'same-kind')
                acc.violation(f'to:pair:{kind}', sub, f'to({a!r}, {b!r}) differs from to({a!r}) followed by to({b!r}) / from the original physical spectrum '
                                                     f'(value ratio {g1[1][0] / ref[1][0]:.6g})')
            acc.cls('to-pairs')


# ---- Planck -------------------------------------------------------------------------------------------------
def planck_ref(lam_m, T):
    lam = np.asarray(lam_m, dtype=np.longdouble)
    x = np.longdouble(H) * C / (lam * np.longdouble(K) * T)
    return np.asarray(2 * np.longdouble(H) * np.longdouble(C) ** 2 / lam ** 5 / np.expm1(x), dtype=float)


def chk_planck(case, acc, seed):
    import sys
    rad = sys.modules['lentil.radiometry']
    wu, vu, T = case['wu'], case['vu'], case['T']
    cw = CANON[wu]
    lam_m = np.array([2e-7, 3.1e-7, 5.5e-7, 1e-6, 2.2e-6, 1e-5, 3e-5])
    wave = lam_m / IN_M[cw]
    try:
        L = rad.planck_radiance(wave, T, wu, vu)
        M = rad.planck_exitance(wave, T, wu, vu)
    except Exception as e:
        acc.violation(f'planck:raises:{type(e).__name__}', case, repr(e))
        return
    ref = from_wlam_per_m(planck_ref(lam_m, T), vu, lam_m) * IN_M[cw]      # per metre -> per <unit>
    if not np.allclose(L, ref, rtol=1e-9):
        acc.violation(f'planck:radiance:{cw}:{vu}', case, f'radiance/reference = {(L / ref)[:3]}')
    if not np.allclose(M, np.pi * np.asarray(L), rtol=1e-12):
        acc.violation(f'planck:exitance-vs-radiance:{cw}:{vu}', case, f'exitance/radiance = {(M / L)[:3]} (expected pi)')
    acc.cls('planck')
    acc.case(case, outcome='planck')


def chk_wien_sb(case, acc, seed):
    import sys
    rad = sys.modules['lentil.radiometry']
    wu, T = case['wu'], case['T']
    cw = CANON[wu]
    b = H * C / (K * 4.965114231744276)
    peak = b / T
    grid_m = peak * np.linspace(0.5, 2.0, 3001)
    Lw = rad.planck_radiance(grid_m / IN_M[cw], T, wu, 'wlam')
    got = grid_m[np.argmax(Lw)]
    step = grid_m[1] - grid_m[0]
    if abs(got - peak) > step:
        acc.violation('planck:wien', case, f'spectral radiance peaks at {got} m, Wien: {peak} m')
    # Stefan-Boltzmann: integral of the exitance over wavelength (log grid, trapezoid on lambda*M vs ln lambda)
    lam = peak * np.exp(np.linspace(np.log(0.02), np.log(2000), 20001))
    Mw = rad.planck_exitance(lam / IN_M[cw], T, wu, 'wlam') / IN_M[cw]           # per <unit> -> per metre
    Mw = np.nan_to_num(Mw)
    total = np.trapz(Mw * lam, np.log(lam))
    sigma = 2 * np.pi ** 5 * K ** 4 / (15 * H ** 3 * C ** 2)
    if not math.isclose(total, sigma * T ** 4, rel_tol=1e-4):
        acc.violation('planck:stefan-boltzmann', case, f'integrated exitance {total} != sigma T^4 = {sigma * T ** 4}')
    acc.cls('wien-sb')
    acc.case(case, outcome='wien')


BANDS = ['U', 'B', 'V', 'R', 'I', 'J', 'H', 'K', 'W1', 'W2', 'W3', 'W4']


def chk_vega(case, acc, seed):
    import sys
    rad = sys.modules['lentil.radiometry']
    band = case['band']
    ref = None
    for wu in WNAMES:
        for vu in FNAMES:
            try:
                flux, wave = rad.vegaflux(band, wu, vu)
            except Exception as e:
                acc.violation(f'vega:raises:{type(e).__name__}', dict(case, wu=wu, vu=vu), repr(e))
                continue
            cw = CANON[wu]
            lam = wave * IN_M[cw]
            w = to_wlam_per_m(flux / IN_M[cw], vu, lam)
            if ref is None:
                ref = (lam, w)
            elif not (math.isclose(lam, ref[0], rel_tol=1e-12) and math.isclose(w, ref[1], rel_tol=1e-9)):
                acc.violation(f'vega:unit-dependence:{cw}:{vu}', dict(case, wu=wu, vu=vu),
                              f'{band}: ({lam} m, {w} W/m^2/m) differs from ({ref[0]}, {ref[1]}) obtained in other units')
            acc.transitions += 1
    # lower-case band names are accepted
    try:
        f2, w2 = rad.vegaflux(band.lower(), 'nm', 'photlam')
    except Exception as e:
        acc.violation('vega:lowercase-band', case, repr(e))
    acc.cls('vega')
    acc.case(case, outcome='vega')


def chk_regrid(case, acc, seed):
    """history: convert the flux unit, give the spectrum another wavelength grid with the same end points and length, convert again"""
    wu, vu = case['wu'], case['vu']
    for f1 in FNAMES:
        for f2 in FNAMES:
            s = start_spectrum(wu, vu, seed)
            try:
                s.to(f1)
                w = np.asarray(s.wave, float)
                neww = np.geomspace(w[0], w[-1], len(w)) if case['how'] == 'geom' else np.concatenate([[w[0]], (w[1:-1] + w[2:]) / 2, [w[-1]]])
                neww[0], neww[-1] = w[0], w[-1]
                if case['via'] == 'setter':
                    s.wave = neww
                else:
                    s.resample(neww, waveunit=s.waveunit)
                ref2 = si(s)                      # the physical spectrum as it is now, by the independent model
                s.to(f2)
                got = si(s)
            except Exception as e:
                acc.violation(f'to:regrid:raises:{type(e).__name__}', dict(case, f1=f1, f2=f2), repr(e))
                continue
            if not (np.allclose(got[0], ref2[0], rtol=1e-10) and np.allclose(got[1], ref2[1], rtol=1e-9)):
                acc.violation('to:flux:after-regrid', dict(case, f1=f1, f2=f2),
                              f'{f1} -> new grid (same end points) -> {f2}: value ratio {np.max(np.abs(got[1] / ref2[1] - 1)):.3e} off the physical spectrum')
            acc.transitions += 1
    acc.cls('regrid')
    acc.case(case, outcome='regrid')


def chk_arith_units(case, acc, seed):
    """a per-wavelength density on the right of a spectrum operation, given in another wavelength unit"""
    wu1, wu2, vu = case['wu1'], case['wu2'], case['vu']
    a = start_spectrum(wu1, vu, seed)
    b = start_spectrum(wu2, vu, seed + 1)
    bb = b.copy(); bb.to(CANON[wu1])
    for opn in ('add', 'subtract'):
        try:
            r1 = getattr(a.copy(), opn)(b.copy())
            r2 = getattr(a.copy(), opn)(bb.copy())
        except Exception as e:
            acc.violation(f'arith:raises:{type(e).__name__}', dict(case, op=opn), repr(e))
            continue
        g1, g2 = si(r1), si(r2)
        if g1[0].shape != g2[0].shape:
            ok = np.allclose(np.interp(g2[0], g1[0], g1[1]), g2[1], rtol=1e-6)
        else:
            ok = np.allclose(g1[0], g2[0], rtol=1e-9) and np.allclose(g1[1], g2[1], rtol=1e-8, atol=1e-300)
        if not ok:
            acc.violation('arith:density-in-other-unit', dict(case, op=opn), f'a {opn} b with b in {wu2} differs physically from the same b converted to {wu1} first')
    acc.cls('arith-units')
    acc.case(case, outcome='arith')


def chk_vegamag(case, acc, seed):
    import sys
    rad = sys.modules['lentil.radiometry']
    band, wu0, vu = case['band'], case['wu0'], case['vu']
    lam_m = np.array([4.5e-7, 5.5e-7, 6.5e-7, 9e-7])
    try:
        bb = rad.Blackbody.vegamag(lam_m / IN_M[wu0], 5000.0, 3.0, band, waveunit=wu0, valueunit=vu)
        base = np.asarray(bb.value, float) / IN_M[wu0]      # per metre of wavelength, flux unit left as it is
    except Exception as e:
        acc.violation(f'vegamag:raises:{type(e).__name__}', case, repr(e))
        return
    for wu in ('m', 'um', 'nm', 'angstrom'):
        try:
            v = np.asarray(bb.sample(lam_m / IN_M[wu], waveunit=wu), float)
        except Exception as e:
            acc.violation(f'vegamag:sample:raises:{type(e).__name__}', dict(case, wu=wu), repr(e))
            continue
        phys = v / IN_M[wu]
        if not np.allclose(phys, base, rtol=1e-9):
            acc.violation('vegamag:sample-unit-dependence', dict(case, wu=wu),
                          f'a Vega-magnitude blackbody built in {wu0} and sampled in {wu} is {np.max(phys / base):.6g} times its own values')
    # a Vega-magnitude source on the right of a spectrum operation whose left operand is held in another unit: what the same source
    # built in the left operand's unit gives
    try:
        other = 'um' if CANON[wu0] != 'um' else 'nm'
        left = rad.Spectrum(lam_m / IN_M[other], np.array([0.5, 1.0, 2.0, 1.5]), waveunit=other)
        bb_native = rad.Blackbody.vegamag(lam_m / IN_M[other], 5000.0, 3.0, band, waveunit=other, valueunit=vu)
        for opn in ('multiply', 'add'):
            bb_here = rad.Blackbody.vegamag(lam_m / IN_M[wu0], 5000.0, 3.0, band, waveunit=wu0, valueunit=vu)
            r1 = getattr(left.copy(), opn)(bb_here)
            r2 = getattr(left.copy(), opn)(bb_native)
            w1_, w2_ = np.asarray(r1.wave, float), np.asarray(r2.wave, float)
            if w1_.shape != w2_.shape:
                continue                 # the common grid's length can differ by one sample through unit-conversion rounding (C13's business)
            # (the two end samples may take the fill value when a unit conversion moves an end point across the range end)
            if not (np.allclose(w1_, w2_, rtol=1e-9) and np.allclose(np.asarray(r1.value, float)[1:-1], np.asarray(r2.value, float)[1:-1], rtol=1e-6)):
                acc.violation('vegamag:as-right-operand', dict(case, op=opn), f'spectrum({other}) {opn} vegamag-source({wu0}) is {np.max(np.asarray(r1.value, float)[1:-1] / np.asarray(r2.value, float)[1:-1]):.6g} times the same operation with the source built in {other}')
    except Exception as e:
        acc.violation(f'vegamag:as-right-operand:raises:{type(e).__name__}', case, repr(e))
    acc.cls('vegamag')
    acc.case(case, outcome='vegamag')


DISPATCH = {'regrid': chk_regrid, 'arith': chk_arith_units, 'vegamag': chk_vegamag, 'wave': chk_wave_triple, 'flux': chk_flux_triple, 'to': chk_to_bfs, 'planck': chk_planck, 'wien': chk_wien_sb, 'vega': chk_vega}


DISPATCH['histop'] = histories.chk_case

def t_triples(arg, acc):
    for a, b, c in itertools.product(WNAMES, repeat=3):
        if a != arg['first']:
            continue
        acc.transitions += 1
        chk_wave_triple({'kind': 'wave', 'units': [a, b, c]}, acc, arg['seed'])
    if arg['first'] == 'm':
        for tr in itertools.product(FNAMES, repeat=3):
            acc.transitions += 1
            chk_flux_triple({'kind': 'flux', 'units': list(tr)}, acc, arg['seed'])
            acc.transitions += 1
            chk_flux_triple({'kind': 'flux', 'units': list(tr), 'signed': True}, acc, arg['seed'])
        for band in BANDS:
            chk_vega({'kind': 'vega', 'band': band}, acc, arg['seed'])


def t_to(arg, acc):
    chk_to_bfs({'kind': 'to', 'wu': arg['wu'], 'vu': arg['vu'], 'depth': arg['depth'], 'ival': arg.get('ival', False)}, acc, arg['seed'])


def t_extra(arg, acc):
    seed = arg['seed']
    for wu in ('m', 'um', 'nm', 'angstrom'):
        for vu in FNAMES:
            for how in ('geom', 'mid'):
                for via in ('setter', 'resample'):
                    chk_regrid({'kind': 'regrid', 'wu': wu, 'vu': vu, 'how': how, 'via': via}, acc, seed)
            chk_sample_units({'kind': 'sampleunits', 'wu': wu, 'vu': vu}, acc, seed)
            for wu2 in ('m', 'um', 'nm', 'angstrom'):
                chk_arith_units({'kind': 'arith', 'wu1': wu, 'wu2': wu2, 'vu': vu}, acc, seed)
        for band in ('U', 'V', 'R', 'J', 'K'):      # photon units only: the magnitude scaling is defined on photon fluxes
            chk_vegamag({'kind': 'vegamag', 'band': band, 'wu0': wu, 'vu': 'photlam'}, acc, seed)


def chk_planck_int(case, acc, seed):
    """integer-typed wavelength arrays are the same wavelengths"""
    import sys
    rad = sys.modules['lentil.radiometry']
    wu, vu, T = case['wu'], case['vu'], case['T']
    ints = {'m': [1, 2, 3], 'um': [1, 2, 30], 'nm': [400, 500, 9000], 'angstrom': [4000, 5000, 60000]}[CANON[wu]]
    for dt in (np.int64, np.int32, np.uint16):
        wi = np.array(ints, dtype=dt)
        wf_ = np.array(ints, dtype=float)
        for fn in (rad.planck_radiance, rad.planck_exitance):
            try:
                a = np.asarray(fn(wi, T if CANON[wu] != 'm' else 0.01, wu, vu), float)
                b = np.asarray(fn(wf_, T if CANON[wu] != 'm' else 0.01, wu, vu), float)
            except Exception as e:
                acc.violation(f'planck:integer-wavelengths:raises:{type(e).__name__}', dict(case, dtype=str(np.dtype(dt))), repr(e))
                continue
            if not np.allclose(a, b, rtol=1e-12, atol=0, equal_nan=False):
                acc.violation('planck:integer-wavelengths', dict(case, dtype=str(np.dtype(dt)), fn=fn.__name__), f'{fn.__name__}({wi.tolist()} as {np.dtype(dt)}) = {a}, as float = {b}')
    acc.cls('planck-int')
    acc.case(case, outcome='planck-int')


def chk_sample_units(case, acc, seed):
    """sampling a per-wavelength density in another wavelength unit gives the density per that unit at those wavelengths"""
    wu, vu = case['wu'], case['vu']
    lam_m = np.array([4.2e-7, 5e-7, 6.5e-7, 8e-7])
    for wu2 in ('m', 'um', 'nm', 'angstrom'):
        s = start_spectrum(wu, vu, seed)
        ref_lam, ref_v = si(s)
        try:
            v = np.asarray(s.sample(lam_m / IN_M[wu2], waveunit=wu2), float)
        except Exception as e:
            acc.violation(f'sample-units:raises:{type(e).__name__}', dict(case, wu2=wu2), repr(e))
            continue
        got = v if vu is None else to_wlam_per_m(v / IN_M[wu2], vu, lam_m)
        want = np.interp(lam_m, ref_lam, ref_v) if vu in (None, 'wlam') else None
        if want is None:
            # interpolate in the spectrum's own flux unit, then express physically
            s0 = start_spectrum(wu, vu, seed)
            v0 = np.interp(lam_m, np.asarray(s0.wave, float) * IN_M[wu], np.asarray(s0.value, float))
            want = to_wlam_per_m(v0 / IN_M[wu], vu, lam_m)
        if not np.allclose(got, want, rtol=1e-9):
            acc.violation('sample-units:density', dict(case, wu2=wu2), f'a {vu} spectrum held in {wu}, sampled in {wu2}, is {np.max(got / want):.6g} times the spectrum')
    acc.cls('sample-units')
    acc.case(case, outcome='sample-units')


def chk_blackbody(case, acc, seed):
    """a Blackbody object carries the Planck radiance in the units it was asked for, and samples it in any wavelength unit"""
    import sys
    rad = sys.modules['lentil.radiometry']
    wu, vu, T = case['wu'], case['vu'], case['T']
    lam_m = np.array([3.1e-7, 5.5e-7, 1e-6, 2.2e-6, 1e-5])
    wave = lam_m / IN_M[CANON[wu]]
    try:
        bb = rad.Blackbody(wave, T, waveunit=wu, valueunit=vu)
        L = np.asarray(rad.planck_radiance(wave, T, wu, vu), float)
    except Exception as e:
        acc.violation(f'blackbody:raises:{type(e).__name__}', case, repr(e))
        return
    if not np.allclose(np.asarray(bb.value, float), L, rtol=1e-12, atol=0) or not np.array_equal(np.asarray(bb.wave, float), wave):
        acc.violation('blackbody:value', case, f'Blackbody(waveunit={wu}, valueunit={vu}).value / planck_radiance = {np.asarray(bb.value, float) / L}')
    for wu2 in ('m', 'um', 'nm', 'angstrom'):
        lam2 = np.array([4e-7, 8e-7, 3e-6])
        try:
            got = np.asarray(bb.sample(lam2 / IN_M[wu2], waveunit=wu2), float)
            want = np.asarray(rad.planck_radiance(lam2 / IN_M[wu2], T, wu2, vu), float)
        except Exception as e:
            acc.violation(f'blackbody:sample:raises:{type(e).__name__}', dict(case, wu2=wu2), repr(e))
            continue
        if not np.allclose(got, want, rtol=1e-12, atol=0):
            acc.violation('blackbody:sample', dict(case, wu2=wu2), f'Blackbody.sample in {wu2} / planck_radiance in {wu2} = {got / want}')
    # the object after a unit conversion: still the Planck radiance, now in the units it was converted to
    for vu2 in FNAMES:
        for wu2 in ('nm', 'um'):
            try:
                bb2 = rad.Blackbody(wave, T, waveunit=wu, valueunit=vu)
                bb2.to(vu2)
                lam2 = np.array([4e-7, 8e-7, 3e-6])
                got = np.asarray(bb2.sample(lam2 / IN_M[wu2], waveunit=wu2), float)
                want = np.asarray(rad.planck_radiance(lam2 / IN_M[wu2], T, wu2, bb2.valueunit), float)
            except Exception as e:
                acc.violation(f'blackbody:after-to:raises:{type(e).__name__}', dict(case, vu2=vu2, wu2=wu2), repr(e))
                continue
            if not np.allclose(got, want, rtol=1e-9, atol=0):
                acc.violation('blackbody:sample-after-to', dict(case, vu2=vu2, wu2=wu2),
                              f'Blackbody({vu}).to({vu2}).sample in {wu2} / planck_radiance(valueunit={bb2.valueunit}) = {got / want}')
    # a Blackbody whose values were edited is that edited spectrum: converting it preserves what it holds now
    try:
        bb3 = rad.Blackbody(wave, T, waveunit=wu, valueunit=vu)
        bb3.value = 0.5 * np.asarray(bb3.value)
        ref3 = si(bb3)
        for tgt in (('um',) if CANON[wu] != 'um' else ('nm',)) + tuple(f_ for f_ in FNAMES if f_ != vu)[:1]:
            bb3.to(tgt)
            got3 = si(bb3)
            if not (np.allclose(got3[0], ref3[0], rtol=1e-10) and np.allclose(got3[1], ref3[1], rtol=1e-9)):
                acc.violation('blackbody:edited-then-to', dict(case, to=tgt), f'a Blackbody with halved values, converted to {tgt}, holds {np.max(got3[1] / ref3[1]):.6g} times the halved values')
                break
    except Exception as e:
        acc.violation(f'blackbody:edited-then-to:raises:{type(e).__name__}', case, repr(e))
    acc.cls('blackbody')
    acc.case(case, outcome='blackbody')


DISPATCH['blackbody'] = chk_blackbody
DISPATCH['planckint'] = chk_planck_int
DISPATCH['sampleunits'] = chk_sample_units


def t_planck(arg, acc):
    for wu in WNAMES:
        for vu in FNAMES:
            acc.transitions += 1
            chk_planck({'kind': 'planck', 'wu': wu, 'vu': vu, 'T': arg['T']}, acc, arg['seed'])
            chk_blackbody({'kind': 'blackbody', 'wu': wu, 'vu': vu, 'T': arg['T']}, acc, arg['seed'])
            chk_planck_int({'kind': 'planckint', 'wu': wu, 'vu': vu, 'T': arg['T']}, acc, arg['seed'])
    for wu in ('m', 'um', 'nm', 'angstrom'):
        chk_wien_sb({'kind': 'wien', 'wu': wu, 'T': arg['T']}, acc, arg['seed'])


def run(tier, seed, acc, procs=None):
    depth = 4 if tier == 'quick' else 5
    tasks = [('t_triples', {'seed': seed, 'first': a}) for a in WNAMES]
    for wu in ('m', 'um', 'nm', 'angstrom'):
        for vu in (None, 'photlam', 'flam', 'wlam'):
            tasks.append(('t_to', {'seed': seed, 'wu': wu, 'vu': vu, 'depth': depth}))
            tasks.append(('t_to', {'seed': seed, 'wu': wu, 'vu': vu, 'depth': depth - 1, 'ival': True}))
    for T in (300, 3000, 5778, 20000):
        tasks.append(('t_planck', {'seed': seed, 'T': T}))
    tasks.append(('t_extra', {'seed': seed}))
    acc.states += 1
    acc.transitions += len(tasks)
    tasks += histories.tasks_for(PID, seed)        # pairwise call histories over the operations this property is anchored in
    engine.run_parallel(MOD, tasks, acc, procs)
    return {
        'rule': f'all 7^3 wavelength-unit name triples (all aliases, case variants) and 3^3 flux-unit triples; explicit-state search over '
                f'Spectrum.to sequences up to depth {depth} over the 10 unit names from each of 16 (waveunit, valueunit) starts, states '
                'de-duplicated on the rounded implementation state; Planck radiance/exitance for all 7x3 unit pairs x 4 temperatures, '
                'Wien peak and Stefan-Boltzmann total; vegaflux over all units for all 12 bands.',
        'bounds': {'to_depth': depth, 'temperatures': [300, 3000, 5778, 20000], 'wavelength_names': WNAMES, 'flux_names': FNAMES},
        'assumptions': ["the library's own values of h, c, k are used (the statement is about consistency)",
                        'reference Planck function in longdouble with expm1'],
        'require': {'wave-triples': 343, 'flux-triples': 27, 'planck': 80, 'wien-sb': 16, 'vega': 12, 'refused': 10, 'to-pairs': 100, 'regrid': 40, 'arith-units': 40, 'vegamag': 20, 'blackbody': 80},
    }


def replay(case, acc):
    if case.get('kind') == 'histop':
        import os as _os
        return histories.chk_case(case, acc, int(_os.environ.get('VERIF_SEED', '0') or 0))
    seed = int(os.environ.get('VERIF_SEED', '0') or 0)
    DISPATCH[case['kind']](case, acc, seed)
