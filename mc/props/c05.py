"""C05 -- propagation conserves energy."""
import os

import numpy as np

from .. import engine, optics as op, refmodel as rm
from .. import histories
from ..histories import t_callhist, t_cross      # worker tasks of the history harness (mc/histories.py)

PID = 'C05'
MOD = 'mc.props.c05'
WL, Z, DX = op.WL, 1.0, op.DX


def pupils(tier):
    s = [(3, 3), (4, 4), (5, 5), (3, 5)]
    if tier != 'quick':
        s += [(5, 3), (6, 6), (2, 7)]
    return s


DEC = dict(dx=5e-3, z=10.0, wl=6.5e-7)          # decimal (not dyadic) physical constants: 1/alpha lands an ulp off the integer period


def make(pupil, seed, power=None, variant=None, phys=None):
    """variant 'signed': amplitude with sign flips, negative on the rim of the support; 'seg3': three segments"""
    import lentil
    amp, opd, _ = op.pupil_arrays(pupil, 'cornerless' if min(pupil) > 2 else 'full', seed, tag=pupil[0] * 10 + pupil[1])
    kw = {}
    if variant == 'signed':
        amp = amp.copy()
        amp[0, :] *= -1
        amp[:, -1] *= -1
        amp[-1, :] = -np.abs(amp[-1, :])
    if variant == 'seg3':
        m3 = np.zeros((3,) + tuple(pupil))
        for c in range(pupil[1]):
            m3[c % 3][:, c] = 1
        m3 = m3 * (amp != 0)
        kw['mask'] = m3[[k for k in range(3) if m3[k].any()]]
    tilt = None
    if variant == 'tilt07':
        # tilt metadata that displaces the image by (0.7, -0.8) oversampled samples: between half a sample and a whole one
        tilt = (0.7, -0.8)
    if variant == 'imagpart':
        # a quarter-wave region written into the amplitude: purely imaginary transmission on part of the aperture, no explicit mask
        amp = amp.astype(complex)
        amp[:, ::2] = amp[:, ::2] * 1j
    if power is not None:
        amp = lentil.normalize_power(amp, power)
    if tilt is not None:
        return (lentil.Wavefront(WL) * lentil.Pupil(amplitude=amp.copy(), opd=opd.copy(), pixelscale=DX, focal_length=Z, **kw), op.phasor(amp, opd, WL), tilt)
    if phys is not None:
        w = lentil.Wavefront(phys['wl']) * lentil.Pupil(amplitude=amp.copy(), opd=opd.copy(), pixelscale=phys['dx'], focal_length=phys['z'], **kw)
        return w, op.phasor(amp, opd, WL)
    w = lentil.Wavefront(WL) * lentil.Pupil(amplitude=amp.copy(), opd=opd.copy(), pixelscale=DX, focal_length=Z, **kw)
    return w, op.phasor(amp, opd, WL)


def du_for(N, os_):
    # alpha_axis = DX*du/(WL*Z*os) = 1/N_axis
    return (WL * Z * os_ / (DX * N[0]), WL * Z * os_ / (DX * N[1]))


def chk_full(case, acc, seed):
    import lentil
    pupil, N, os_, prop = tuple(case['pupil']), tuple(case['N']), case['os'], case['prop']
    phys = DEC if case.get('sampling') == 'decimal' else None
    made = make(pupil, seed, case.get('power'), case.get('variant'), phys)
    w, fin = made[0], made[1]
    if len(made) == 3:
        # angles that give the requested displacement for this period: shift = z * angle / (du / os) oversampled samples
        du_t = du_for(N, os_)
        w = w * lentil.Tilt(x=made[2][0] * du_t[0] / os_ / Z, y=made[2][1] * du_t[1] / os_ / Z)
    pin = float(np.sum(np.abs(fin) ** 2))
    if case.get('power') is not None and abs(pin - case['power']) > 1e-12 * case['power']:
        acc.violation('normalize_power:value', case, f'sum|amp|^2 = {pin!r} != {case["power"]}')
    du = du_for(N, os_)
    if phys is not None:
        du = tuple(phys['wl'] * phys['z'] * os_ / (phys['dx'] * n_) for n_ in N)
        below = [1 / (phys['dx'] * d_ / (phys['wl'] * phys['z'] * os_)) < n_ for d_, n_ in zip(du, N)]
        acc.cls('decimal:reciprocal-below-integer' if any(below) else 'decimal:reciprocal-at-or-above')
    try:
        if prop == 'dft':
            out = lentil.propagate_dft(w, du, shape=(N[0] // os_, N[1] // os_), oversample=os_)
        elif prop == 'fft':
            out = lentil.propagate_fft(w, du, oversample=os_)
        else:
            # FFT propagator with a re-used, dirty scratch buffer (larger than the grid, prior content everywhere)
            scr = np.full((N[0] + 2, N[1] + 1), 7 + 1j, dtype=complex)
            first = lentil.propagate_fft(w, du, oversample=os_, scratch=scr)
            tot_first = float(np.sum(first.intensity))
            w5, f5 = make(pupil, seed, 5.0)
            lentil.propagate_fft(w5, du, oversample=os_, scratch=scr)           # another, brighter pupil through the same buffer
            if abs(float(np.sum(first.intensity)) - tot_first) > 1e-10 * pin:
                acc.violation('energy:fft-scratch:earlier-image-changed', case,
                              f'the image returned by an earlier call changed from total {tot_first!r} to {float(np.sum(first.intensity))!r} when the scratch buffer was reused')
            out = lentil.propagate_fft(w, du, oversample=os_, scratch=scr)
        I = out.intensity
    except Exception as e:
        acc.violation(f'energy:raises:{prop}:{type(e).__name__}', case, repr(e))
        acc.case(case, outcome='raise')
        return
    if tuple(I.shape) != N:
        acc.violation(f'energy:{prop}:shape', case, f'intensity shape {I.shape} != full period {N}')
    tot = float(np.sum(I))
    sq = 'iso' if N[0] == N[1] else 'aniso'
    if abs(tot - pin) > 1e-10 * pin:
        acc.violation(f'energy:{prop}:full-period:{sq}', case, f'sum(intensity) = {tot!r} != sum|field|^2 = {pin!r} (ratio {tot / pin:.6g})')
    if np.any(I < 0):
        acc.violation(f'energy:{prop}:negative', case, 'negative intensity')
    acc.cls(f'{prop}:{sq}')
    if case.get('power') is not None:
        acc.cls('normalized')
    acc.case(case, outcome=f'{prop}-{sq}')


def chk_nested(case, acc, seed):
    """Every centred window a x b <= shape (via prop_shape): captured power is monotone along every chain of
    nested windows, non-negative and at most the input power.  Also nested mask bounding boxes."""
    import lentil
    pupil, N, os_ = tuple(case['pupil']), tuple(case['N']), case['os']
    w, fin = make(pupil, seed, None, case.get('variant'))
    pin = float(np.sum(np.abs(fin) ** 2))
    du = du_for(N, os_)
    S = (N[0] // os_, N[1] // os_)
    P = np.zeros((S[0] + 1, S[1] + 1))
    for a in range(1, S[0] + 1):
        for b in range(1, S[1] + 1):
            out = lentil.propagate_dft(w, du, shape=S, prop_shape=(a, b), oversample=os_)
            I = out.intensity
            if np.any(I < 0):
                acc.violation('energy:dft:negative', dict(case, window=[a, b]), 'negative intensity')
            P[a, b] = np.sum(I)
            acc.transitions += 1
            acc.evaluations += 1
            acc.traces += 1
    eps = 1e-10 * pin
    for a in range(1, S[0] + 1):
        for b in range(1, S[1] + 1):
            if P[a, b] < -eps or P[a, b] > pin + eps:
                acc.violation('energy:window:bounds', dict(case, window=[a, b]), f'captured {P[a, b]!r} outside [0, {pin!r}]')
            if a > 1 and P[a, b] < P[a - 1, b] - eps:
                acc.violation('energy:window:monotone', dict(case, window=[a, b]),
                              f'window {a}x{b} captures {P[a, b]!r} < contained window {a - 1}x{b}: {P[a - 1, b]!r}')
            if b > 1 and P[a, b] < P[a, b - 1] - eps:
                acc.violation('energy:window:monotone', dict(case, window=[a, b]),
                              f'window {a}x{b} captures {P[a, b]!r} < contained window {a}x{b - 1}: {P[a, b - 1]!r}')
    if abs(P[S[0], S[1]] - pin) > 1e-10 * pin:
        acc.violation('energy:dft:full-period:window', case, f'full window captures {P[S[0], S[1]]!r} != {pin!r}')
    # nested masks (bounding boxes growing from the lower-right corner)
    so = (S[0] * os_, S[1] * os_)
    prev = 0.0
    for k in range(1, min(so) + 1):
        m = np.zeros(so); m[so[0] - k:, so[1] - k:] = 1
        tot = float(np.sum(lentil.propagate_dft(w, du, shape=S, oversample=os_, mask=m).intensity))
        if tot < prev - eps or tot > pin + eps:
            acc.violation('energy:mask:monotone', dict(case, k=k), f'mask box {k} captures {tot!r}, contained box {prev!r}, input {pin!r}')
        prev = tot
        acc.transitions += 1
    acc.cls('nested')
    acc.case(case, outcome='nested')


def chk_norm(case, acc, seed):
    import lentil
    shape, p = tuple(case['shape']), case['power']
    big = (20, 20)       # more than 255 lit pixels: narrow integer accumulators wrap
    for kind in ('real', 'complex', 'int', 'bool-mask', 'uint8-mask', 'int16-mask', 'float32'):
        if kind == 'real':
            a = rm.generic_real(shape, seed, tag=3)
        elif kind == 'complex':
            a = rm.generic_complex(shape, seed, tag=4)
        elif kind == 'int':
            a = np.arange(np.prod(shape)).reshape(shape) + 1
        elif kind == 'float32':
            a = rm.generic_real(big, seed, tag=5).astype(np.float32)
        else:
            m = np.ones(big); m[0, :3] = 0; m[7, 7] = 0
            a = m.astype({'bool-mask': bool, 'uint8-mask': np.uint8, 'int16-mask': np.int16}[kind])
        if kind in ('real', 'complex'):
            # faint and bright inputs: the result has the requested power whatever the input's own power is
            for e in (-200, -60, -30, 40, 200):
                rs = lentil.normalize_power(a * 2.0 ** e, p)
                gs = float(np.sum(np.abs(rs) ** 2))
                if not abs(gs - p) <= 1e-12 * p:
                    acc.violation(f'normalize_power:value:{kind}:scaled', dict(case, payload=kind, factor=f'2^{e}'), f'input scaled by 2^{e}: power {gs!r} != {p}')
                    break
            acc.cls('norm:scaled')
        a0 = np.array(a, copy=True)
        r = lentil.normalize_power(a, p)
        got = float(np.sum(np.abs(r) ** 2))
        if abs(got - p) > (1e-6 if kind == 'float32' else 1e-12) * p:
            acc.violation(f'normalize_power:value:{kind}', dict(case, payload=kind), f'power {got!r} != {p}')
        # direction preserved
        if np.abs(np.vdot(np.asarray(r, dtype=complex).ravel(), np.asarray(a0, dtype=complex).ravel())) < (1 - 1e-6) * np.linalg.norm(np.asarray(r, dtype=complex)) * np.linalg.norm(np.asarray(a0, dtype=complex)):
            acc.violation('normalize_power:shape', dict(case, payload=kind), 'result is not a positive multiple of the input')
        if not np.array_equal(a, a0):
            acc.violation('normalize_power:mutates', dict(case, payload=kind), 'input modified')
    acc.case(case, outcome='norm')


DISPATCH = {'full': chk_full, 'nested': chk_nested, 'norm': chk_norm}


DISPATCH['histop'] = histories.chk_case

def t_pupil(arg, acc):
    tier, seed, pupil = arg['tier'], arg['seed'], tuple(arg['pupil'])
    span = 5 if tier == 'quick' else 6
    for Nr in [arg['Nr']]:
        for Nc in range(pupil[1], pupil[1] + span):
            acc.states += 1
            for os_ in (1, 2, 3):
                if Nr % os_ == 0 and Nc % os_ == 0:
                    acc.transitions += 1
                    chk_full({'kind': 'full', 'pupil': pupil, 'N': (Nr, Nc), 'os': os_, 'prop': 'dft'}, acc, seed)
                    if (Nr + Nc) % 2 == 0 or tier != 'quick':
                        chk_nested({'kind': 'nested', 'pupil': pupil, 'N': (Nr, Nc), 'os': os_}, acc, seed)
                acc.transitions += 2
                chk_full({'kind': 'full', 'pupil': pupil, 'N': (Nr, Nc), 'os': os_, 'prop': 'fft'}, acc, seed)
                chk_full({'kind': 'full', 'pupil': pupil, 'N': (Nr, Nc), 'os': os_, 'prop': 'fft-scratch'}, acc, seed)
            for os_ in (1, 2, 3):
                for prop in ('fft',) + (('dft',) if Nr % os_ == 0 and Nc % os_ == 0 else ()):
                    chk_full({'kind': 'full', 'pupil': pupil, 'N': (Nr, Nc), 'os': os_, 'prop': prop, 'sampling': 'decimal'}, acc, seed)
            for p in (0.5, 1, 2, 7):
                for prop in ('dft', 'fft'):
                    acc.transitions += 1
                    chk_full({'kind': 'full', 'pupil': pupil, 'N': (Nr, Nc), 'os': 1, 'prop': prop, 'power': p}, acc, seed)
            for prop in ('dft',):
                chk_full({'kind': 'full', 'pupil': pupil, 'N': (Nr, Nc), 'os': 1, 'prop': prop, 'power': 3.0, 'variant': 'tilt07'}, acc, seed)
                if Nr % 2 == 0 and Nc % 2 == 0:
                    chk_full({'kind': 'full', 'pupil': pupil, 'N': (Nr, Nc), 'os': 2, 'prop': prop, 'variant': 'tilt07'}, acc, seed)
            for variant in ('signed', 'seg3', 'imagpart'):
                chk_full({'kind': 'full', 'pupil': pupil, 'N': (Nr, Nc), 'os': 1, 'prop': 'fft-scratch', 'power': 3.0, 'variant': variant}, acc, seed)
                for prop in ('dft', 'fft'):
                    acc.transitions += 1
                    chk_full({'kind': 'full', 'pupil': pupil, 'N': (Nr, Nc), 'os': 1, 'prop': prop, 'power': 3.0, 'variant': variant}, acc, seed)
                if (Nr + Nc) % 3 == 0:
                    chk_nested({'kind': 'nested', 'pupil': pupil, 'N': (Nr, Nc), 'os': 1, 'variant': variant}, acc, seed)
    if arg['Nr'] == pupil[0]:
        for p in (0.5, 1, 2, 7):
            chk_norm({'kind': 'norm', 'shape': pupil, 'power': p}, acc, seed)


def run(tier, seed, acc, procs=None):
    tasks = [('t_pupil', {'tier': tier, 'seed': seed, 'pupil': p, 'Nr': Nr}) for p in pupils(tier)
             for Nr in range(p[0], p[0] + (5 if tier == 'quick' else 6))]
    acc.states += 1
    acc.transitions += len(tasks)
    tasks += histories.tasks_for(PID, seed)        # pairwise call histories over the operations this property is anchored in
    engine.run_parallel(MOD, tasks, acc, procs)
    return {
        'rule': 'pupil x commensurate period (N_row, N_col) independently per axis in {n..n+4} x oversample dividing N x {DFT, FFT}; '
                'for every such DFT configuration every centred window a x b (all chains of nested windows) and a chain of nested '
                'mask boxes; normalize_power targets {1/2,1,2,7} on real, complex and integer arrays and through propagation.',
        'bounds': {'pupils': pupils(tier), 'period_span': 5 if tier == 'quick' else 6, 'oversample': [1, 2, 3]},
        'assumptions': ['tolerance 1e-10 relative on power sums (rounding only)'],
        'require': {'dft:iso': 10, 'dft:aniso': 50, 'fft:iso': 10, 'fft:aniso': 50, 'fft-scratch:aniso': 50, 'nested': 20, 'normalized': 50, 'norm:scaled': 8, 'decimal:reciprocal-below-integer': 30},
    }


def replay(case, acc):
    if case.get('kind') == 'histop':
        import os as _os
        return histories.chk_case(case, acc, int(_os.environ.get('VERIF_SEED', '0') or 0))
    seed = int(os.environ.get('VERIF_SEED', '0') or 0)
    DISPATCH[case['kind']](case, acc, seed)
