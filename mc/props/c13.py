"""C13 -- Spectrum arithmetic is pointwise, commutative and unit-agnostic."""
import itertools
import operator
import os

import numpy as np

from .. import engine, refmodel as rm
from .. import histories
from ..histories import t_callhist, t_cross      # worker tasks of the history harness (mc/histories.py)

PID = 'C13'
MOD = 'mc.props.c13'

TO_NM = {'nm': 1.0, 'um': 1e3, 'm': 1e9, 'angstrom': 0.1}     # independent table: 1 unit = x nm
UNITS = ['nm', 'um', 'm', 'angstrom']
OPS = {'add': operator.add, 'subtract': operator.sub, 'multiply': operator.mul, 'divide': operator.truediv, 'power': operator.pow}
def ac(a, b, **kw):
    """allclose that answers False (instead of raising) when the library returned an array of another length"""
    a, b = np.asarray(a), np.asarray(b)
    if a.ndim and b.ndim and a.shape != b.shape:
        return False
    return bool(np.allclose(a, b, **kw))


NPOPS = {'add': np.add, 'subtract': np.subtract, 'multiply': np.multiply, 'divide': np.divide, 'power': np.power}

GRIDS = {
    'A': list(range(400, 701, 50)),
    'same': list(range(400, 701, 50)),
    'nested': list(range(500, 601, 25)),
    'partial': list(range(600, 901, 100)),
    'disjoint': list(range(800, 1101, 100)),
    'nonuniform': [400, 410, 450, 520, 700],
}
GRIDS['Axum'] = [g * 1000 for g in GRIDS['A']]      # in um these are the same numbers as 'A' in nm: equal arrays, different spectra
GRIDS['signed'] = GRIDS['nested']                      # same grid, values of both signs
GRIDS['adjacent'] = [710, 760, 810, 860]              # starts 10 nm above the end of 'A': a gap smaller than either step
GRIDS['nonuni4'] = [400, 420, 460, 700]              # as many samples as the 100 nm grid over its range, but elsewhere
GRIDS['u4'] = [400, 500, 600, 700]
GRIDS['shifted'] = [420, 520, 620, 720]              # union span / step is not an integer
GRIDS['nonuni_late'] = [400, 480, 500, 510, 700]      # the smallest interval is neither the first nor the last (w8-C13-2)
PAIRS = [('nonuni_late', 'u4'), ('u4', 'nonuni_late'), ('A', 'signed'), ('A', 'adjacent'), ('nonuni4', 'u4'), ('u4', 'nonuni4'), ('A', 'shifted'), ('intA', 'nested'), ('intA', 'intnested'), ('A', 'same'), ('A', 'nested'), ('A', 'partial'), ('A', 'disjoint'), ('A', 'nonuniform'), ('nonuniform', 'nested'),
         ('nested', 'A'), ('partial', 'nonuniform')]


class GridTooLarge(Exception):
    pass


class grid_guard:
    """Deterministic seam: while a Spectrum operation runs, numpy.linspace refuses to build a common grid of more than 10^6
    points (the catalogue needs < 10^3).  A unit mix-up otherwise turns into a multi-gigabyte allocation whose outcome
    (MemoryError, time-out, success) would depend on the machine."""
    def __enter__(self):
        self.orig = np.linspace

        def checked(start, stop, num=50, *a, **k):
            if num is not None and np.ndim(num) == 0 and num > 10 ** 6:
                raise GridTooLarge(f'common wavelength grid of {int(num)} points requested')
            return self.orig(start, stop, num, *a, **k)
        np.linspace = checked
        return self

    def __exit__(self, *exc):
        np.linspace = self.orig
        return False


def guarded(fn):
    with grid_guard():
        return engine.guarded(fn, 120)


def values(name, seed):
    n = len(GRIDS[name])
    if name == 'signed':
        return rm.generic_real((n,), seed, tag=11, lo=-2.0, hi=2.0)
    if name.startswith('int'):
        return np.floor(rm.generic_real((n,), seed, tag=sum(map(ord, name)) % 17, lo=1, hi=9))
    return rm.generic_real((n,), seed, tag=sum(map(ord, name)) % 17, lo=0.5, hi=2.0)


INT_NAMES = {'intA': 'A', 'intnested': 'nested'}      # same grids, integer-valued (integer dtype) samples
for _k, _v in INT_NAMES.items():
    GRIDS[_k] = GRIDS[_v]


def make(name, unit, seed, valueunit=None):
    from lentil.radiometry import Spectrum
    w = np.array(GRIDS[name], dtype=float) / TO_NM[unit]
    v = values(name, seed).copy()
    if name in INT_NAMES:
        v = v.astype(np.int64)
    if valueunit is not None:
        v = v * TO_NM[unit]          # same physical per-wavelength density expressed per `unit`
    return Spectrum(w, v, waveunit=unit, valueunit=valueunit)


def phys(s):
    """(wavelengths in nm, values per nm or unit-less) by the independent table"""
    f = TO_NM[s.waveunit]
    w = np.asarray(s.wave, dtype=float) * f
    v = np.asarray(s.value, dtype=float)
    if s.valueunit is not None:
        v = v / f
    return w, v


def same_phys(a, b, tol=1e-9):
    wa, va = a
    wb, vb = b
    return wa.shape == wb.shape and ac(wa, wb, rtol=1e-12, atol=0) and ac(va, vb, rtol=tol, atol=1e-12, equal_nan=True)


def lin(name, seed, lam, fill, strict):
    """admissible piecewise-linear values of catalogue spectrum `name` at lam (nm): the sample inside the range, fill outside.
    When the operands are not both given in nm, a grid point that coincides with a range end only up to the rounding of the
    unit conversion may be classified either way: both answers are admissible there."""
    g = np.array(GRIDS[name], dtype=float)
    v = values(name, seed)
    if not strict:
        for end, val in ((g[0], v[0]), (g[-1], v[-1])):
            if abs(lam - end) <= 1e-9 * end:
                return [fill, float(val)]
    if lam < g[0] or lam > g[-1]:
        return [fill]
    return [float(np.interp(lam, g, v))]


def chk_binary(case, acc, seed):
    from lentil.radiometry import Spectrum
    n1, n2 = case['pair']
    u1, u2 = case['units']
    opn, sampling, method, fill = case['op'], case['sampling'], case['method'], case['fill']
    vu = case.get('valueunit')
    a, b = make(n1, u1, seed, vu), make(n2, u2, seed, vu)
    pa, pb = phys(a), phys(b)
    samp = sampling
    if isinstance(sampling, (int, float)):
        samp = sampling / TO_NM[u1]              # a numeric sampling is expressed in the left operand's unit
    try:
        res = guarded(lambda: getattr(a, opn)(b, sampling=samp, method=method, fill_value=fill))
    except Exception as e:
        acc.violation(f'binary:raises:{type(e).__name__}', case, repr(e))
        acc.case(case, outcome='raise')
        return
    ukey = 'nm-only' if (u1, u2) == ('nm', 'nm') else ('same-unit' if u1 == u2 else 'mixed-units')
    if res is a or res is b:
        acc.violation('binary:result-not-new', case, 'result is one of the operands')
    if not same_phys(phys(a), pa) or not same_phys(phys(b), pb):
        acc.violation(f'binary:operand-changed:{ukey}', case,
                      f'an operand no longer describes the same physical spectrum (units now {a.waveunit}, {b.waveunit})')
    if res.waveunit not in TO_NM:
        acc.violation('binary:result-unit', case, f'unit {res.waveunit}')
        return
    wr, vr = phys(res)
    g1, g2 = np.array(GRIDS[n1], float), np.array(GRIDS[n2], float)
    lo, hi = min(g1[0], g2[0]), max(g1[-1], g2[-1])
    d1, d2 = np.diff(g1).min(), np.diff(g2).min()
    d = {'min': min(d1, d2), 'left': d1, 'right': d2}.get(sampling, sampling)
    # grid: uniform, spans the union, at the requested sampling (one extra interval tolerated: ceil() on a rounding tie)
    step = np.diff(wr)
    grid_ok = (len(wr) >= 2 and abs(wr[0] - lo) <= 1e-9 * lo and abs(wr[-1] - hi) <= 1e-9 * hi and
               ac(step, step[0], rtol=1e-9) and step[0] <= d * (1 + 1e-9))
    nint = len(wr) - 1
    need = int(np.ceil((hi - lo) / d - 1e-9))
    if grid_ok and nint not in (need, need + 1):
        grid_ok = False
    if not grid_ok:
        acc.violation(f'binary:grid:{ukey}', case,
                      f'result grid (nm) {np.round(wr[:4], 6).tolist()}..{np.round(wr[-1], 6)} ({len(wr)} pts) is not the uniform grid on '
                      f'[{lo}, {hi}] at sampling {d}')
        acc.case(case, outcome='grid-bad')
        return
    strict = (u1, u2) == ('nm', 'nm')
    bad = None
    checked = 0
    with np.errstate(all='ignore'):
        for lam, got in zip(wr, vr):
            if method != 'linear':
                # splines: judged where the grid point coincides with a sample of each operand it lies within
                def node(name, g):
                    k = np.argmin(np.abs(g - lam))
                    at_node = abs(g[k] - lam) <= 1e-9 * lam
                    if at_node and k in (0, len(g) - 1) and not strict:
                        return [fill, float(values(name, seed)[k])]
                    if lam < g[0] or lam > g[-1]:
                        return [fill]
                    return [float(values(name, seed)[k])] if at_node else None
                c1, c2 = node(n1, g1), node(n2, g2)
                if c1 is None or c2 is None:
                    continue
            else:
                c1, c2 = lin(n1, seed, lam, fill, strict), lin(n2, seed, lam, fill, strict)
            checked += 1
            hit = False
            for x1 in c1:
                for x2 in c2:
                    exp = NPOPS[opn](np.float64(x1), np.float64(x2))
                    if np.isclose(got, exp, rtol=1e-8, atol=1e-12, equal_nan=True) or (np.isinf(exp) and np.isinf(got) and np.sign(exp) == np.sign(got)):
                        hit = True
            if not hit:
                bad = (lam, got, float(exp))
                break
    if bad is not None:
        acc.violation(f'binary:value:{ukey}:{method}', case,
                      f'at {bad[0]:.6g} nm the result is {bad[1]!r}, expected {opn}(interp(left), interp(right)) = {bad[2]!r}')
    acc.cls(ukey)
    acc.cls('pair:' + n2 if n1 == 'A' else 'pair:other')
    acc.case(case, nontrivial=checked > 0, outcome=f'{ukey}-{opn}')


def chk_commute(case, acc, seed):
    n1, n2 = case['pair']
    u1, u2 = case['units']
    for opn in ('add', 'multiply'):
        a, b = make(n1, u1, seed), make(n2, u2, seed)
        try:
            r1 = guarded(lambda: getattr(a, opn)(b, method=case['method'], fill_value=case['fill']))
            a2, b2 = make(n1, u1, seed), make(n2, u2, seed)
            r2 = guarded(lambda: getattr(b2, opn)(a2, method=case['method'], fill_value=case['fill']))
        except Exception as e:
            acc.violation(f'commute:raises:{type(e).__name__}', dict(case, op=opn), repr(e))
            continue
        p1, p2 = phys(r1), phys(r2)
        ukey = 'nm-only' if (u1, u2) == ('nm', 'nm') else ('same-unit' if u1 == u2 else 'mixed-units')
        if (u1, u2) == ('nm', 'nm'):
            ok = same_phys(p1, p2, tol=1e-8)
        elif len(p1[0]) != len(p2[0]):
            acc.cls('commute-grid-differs-by-rounding')
            ok = True       # ceil() landed on a rounding tie; each order is still judged against the model by chk_binary
        else:
            ends = [GRIDS[n][k] for n in (n1, n2) for k in (0, -1)]
            keep = np.array([all(abs(l - e) > 1e-9 * e for e in ends) for l in p1[0]])
            ok = ac(p1[0], p2[0], rtol=1e-9) and ac(p1[1][keep], p2[1][keep], rtol=1e-8, atol=1e-12, equal_nan=True)
        if not ok:
            acc.violation(f'commute:{opn}:{ukey}', dict(case, op=opn), 'a op b and b op a are different physical spectra')
    acc.cls('commute')
    acc.case(case, outcome='commute')


def chk_unit_invariance(case, acc, seed):
    """the same physical operands expressed in other units give the same physical result (density units: add/sub)"""
    n1, n2 = case['pair']
    opn, vu = case['op'], case.get('valueunit')
    base = getattr(make(n1, 'nm', seed, vu), opn)(make(n2, 'nm', seed, vu), sampling=case['sampling'], fill_value=case['fill'])
    pb_ = phys(base)
    for u1, u2 in itertools.product(UNITS, repeat=2):
        try:
            r = guarded(lambda: getattr(make(n1, u1, seed, vu), opn)(make(n2, u2, seed, vu), sampling=case['sampling'], fill_value=case['fill']))
        except Exception as e:
            acc.violation(f'unit-invariance:raises:{type(e).__name__}', dict(case, units=[u1, u2]), repr(e))
            continue
        pr = phys(r)
        # compare as functions on the nm result's grid when the grids have the same length, else by interpolation
        if len(pr[0]) == len(pb_[0]):
            ok = same_phys(pr, pb_, tol=1e-7)
        else:
            ok = ac(np.interp(pb_[0], pr[0], pr[1]), pb_[1], rtol=1e-6, atol=1e-9, equal_nan=True)
        if not ok:
            acc.violation(f'unit-invariance:{"density" if vu else "unitless"}', dict(case, units=[u1, u2]),
                          f'{opn} of operands given in ({u1}, {u2}) differs physically from the same operands given in nm')
        acc.transitions += 1
    acc.cls('unit-invariance')
    acc.case(case, outcome='unit-inv')


def chk_same_numbers(case, acc, seed):
    """operands whose wavelength arrays hold the same numbers in different units are different spectra"""
    opn, sampling = case['op'], case['sampling']
    a, b = make('A', 'nm', seed), make('Axum', 'um', seed)
    if not np.array_equal(a.wave, b.wave):
        acc.errors.append('catalogue: A[nm] and Axum[um] should hold equal numbers')
    try:
        res = guarded(lambda: getattr(a, opn)(b, sampling=sampling, fill_value=case['fill']))
    except Exception as e:
        acc.violation(f'binary:same-numbers:raises:{type(e).__name__}', case, repr(e))
        return
    wr, vr = phys(res)
    g1, g2 = np.array(GRIDS['A'], float), np.array(GRIDS['Axum'], float)
    d = {'min': 50.0, 'left': 50.0, 'right': 50000.0}[sampling]
    step = np.diff(wr)
    if not (abs(wr[0] - g1[0]) <= 1e-6 and abs(wr[-1] - g2[-1]) <= 1e-3 and len(wr) >= 3 and ac(step, step[0], rtol=1e-6)
            and step[0] <= d * (1 + 1e-9) and len(wr) - 1 in (int(np.ceil((g2[-1] - g1[0]) / d - 1e-9)), int(np.ceil((g2[-1] - g1[0]) / d - 1e-9)) + 1)):
        acc.violation('binary:same-numbers:grid', case,
                      f'operands with equal numbers in nm and um: result grid {wr[0]:.6g}..{wr[-1]:.6g} nm ({len(wr)} points) is not the union {g1[0]}..{g2[-1]} nm')
    else:
        f = NPOPS[opn]
        idx = list(range(0, len(wr), max(1, len(wr) // 400))) + [len(wr) - 1]
        for k in idx:
            c1, c2 = lin('A', seed, wr[k], case['fill'], False), lin('Axum', seed, wr[k], case['fill'], False)
            if not any(np.isclose(vr[k], f(np.float64(x1), np.float64(x2)), rtol=1e-8, atol=1e-12, equal_nan=True) for x1 in c1 for x2 in c2):
                acc.violation('binary:same-numbers:value', case, f'at {wr[k]:.6g} nm the result is {vr[k]!r}')
                break
    acc.cls('same-numbers')
    acc.case(case, outcome='same-numbers')


def chk_value_history(case, acc, seed):
    """a result depends on the operands' current values: op, then `a.value = ...`, then op again"""
    n1, n2 = case['pair']
    opn, method = case['op'], case['method']
    a, b = make(n1, 'nm', seed), make(n2, 'nm', seed)
    getattr(a, opn)(b, method=method)
    a.sample(np.array([450.0, 475.0]), method=method)
    new = np.array(a.value, dtype=float)[::-1].copy() + 0.25
    a.value = new
    r1 = getattr(a, opn)(b, method=method)
    from lentil.radiometry import Spectrum
    fresh = Spectrum(np.array(a.wave, copy=True), new.copy(), waveunit='nm')
    r2 = getattr(fresh, opn)(make(n2, 'nm', seed), method=method)
    if not same_phys(phys(r1), phys(r2), tol=1e-10):
        acc.violation(f'binary:stale-after-value-update:{method}', case, 'after `a.value = ...` the operation still uses the old values')
    s1 = a.sample(np.array([450.0, 475.0]), method=method)
    s2 = fresh.sample(np.array([450.0, 475.0]), method=method)
    if not ac(s1, s2, rtol=1e-12):
        acc.violation(f'sample:stale-after-value-update:{method}', case, f'{s1} != {s2}')
    acc.cls('value-history')
    acc.case(case, outcome='value-history')


def chk_scalar(case, acc, seed):
    name, unit, opn, kind = case['name'], case['unit'], case['op'], case['other']
    a = make(name, unit, seed)
    n = len(GRIDS[name])
    other = {'int': 3, 'float': 1.5, 'list': list(np.linspace(1, 2, n)), 'tuple': tuple(np.linspace(2, 3, n)),
             'ndarray': np.linspace(0.5, 1.5, n)}[kind]
    w0, v0 = a.wave.copy(), a.value.copy()
    try:
        r = getattr(a, opn)(other)
    except Exception as e:
        acc.violation(f'scalar:raises:{type(e).__name__}', case, repr(e))
        return
    exp = NPOPS[opn](v0, np.asarray(other, dtype=float) if kind not in ('int', 'float') else other)
    if not np.array_equal(r.wave, w0) or r.waveunit != unit:
        acc.violation('scalar:grid-changed', case, 'wavelength grid changed')
    if not ac(r.value, exp, rtol=1e-12, equal_nan=True):
        acc.violation('scalar:value', case, f'{r.value} != {exp}')
    if r is a or not np.array_equal(a.value, v0) or not np.array_equal(a.wave, w0):
        acc.violation('scalar:operand-changed', case, 'operand changed / result is the operand')
    # operator form
    sym = {'add': '+', 'subtract': '-', 'multiply': '*', 'divide': '/', 'power': '**'}[opn]
    r2 = OPS[opn](a, other)
    if not ac(r2.value, exp, rtol=1e-12, equal_nan=True):
        acc.violation('scalar:operator-form', case, f'a {sym} other differs from a.{opn}(other)')
    if kind in ('int', 'float', 'list', 'tuple'):
        # the operand on the left: either refused (TypeError) or the operator with the operands in that order
        try:
            rl = OPS[opn](other, a)
        except TypeError:
            rl = None
        if rl is not None and hasattr(rl, 'value'):
            expl = NPOPS[opn](np.asarray(other, dtype=float) if kind not in ('int', 'float') else other, v0)
            if not ac(np.asarray(rl.value, float), expl, rtol=1e-12, equal_nan=True):
                acc.violation(f'scalar:reflected:{opn}', case, f'other {sym} spectrum = {np.asarray(rl.value)[:3]} but {sym} applied in that order gives {expl[:3]}')
    if opn == 'multiply' and kind in ('int', 'float'):
        r3 = other * a
        if not ac(r3.value, exp, rtol=1e-12):
            acc.violation('scalar:rmul', case, 'other * a differs')
    acc.cls('scalar')
    acc.case(case, outcome='scalar')


def chk_badtype(case, acc, seed):
    a = make('A', 'nm', seed)
    for other in ('x', None, {'a': 1}):
        try:
            a.add(other)
            acc.violation('badtype:accepted', dict(case, other=repr(other)), 'unsupported operand accepted')
        except TypeError:
            pass
        except Exception as e:
            acc.violation('badtype:wrong-exception', dict(case, other=repr(other)), repr(e))
    acc.case(case, outcome='badtype')


def chk_defaults(case, acc, seed):
    """the operator forms and Spectrum.sample with their documented defaults (sampling='min', method='linear', fill_value=0,
    waveunit='nm') are the explicit calls; sampling outside the data gives the fill value, in any wavelength unit"""
    n1, n2, u = case['pair'][0], case['pair'][1], case['unit']
    for opn in OPS:
        a, b = make(n1, u, seed), make(n2, u, seed)
        a2, b2 = make(n1, u, seed), make(n2, u, seed)
        try:
            with np.errstate(all='ignore'):
                r_op = guarded(lambda: OPS[opn](a, b))
                r_ex = guarded(lambda: getattr(a2, opn)(b2, sampling='min', method='linear', fill_value=0))
        except Exception as e:
            acc.violation(f'defaults:raises:{type(e).__name__}', dict(case, op=opn), repr(e))
            continue
        if not (ac(r_op.wave, r_ex.wave, rtol=1e-12) and ac(r_op.value, r_ex.value, rtol=1e-12, equal_nan=True)):
            acc.violation(f'defaults:operator:{opn}', dict(case, op=opn), 'a <op> b differs from a.<op>(b, sampling=\'min\', method=\'linear\', fill_value=0)')
    s0 = make(n1, u, seed)
    g_nm = np.array(GRIDS[n1], dtype=float)
    v = np.asarray(s0.value, float)
    probe_nm = np.concatenate([[g_nm[0] - 50, g_nm[0] - 1e-3], (g_nm[:-1] + g_nm[1:]) / 2, g_nm, [g_nm[-1] + 1e-3, g_nm[-1] + 70]])
    inside = (probe_nm >= g_nm[0]) & (probe_nm <= g_nm[-1])
    for wu in UNITS:
        for fill, kw in ((0.0, {}), (2.5, {'fill_value': 2.5})):
            s1 = make(n1, u, seed)
            try:
                got = np.asarray(s1.sample(probe_nm / TO_NM[wu], waveunit=wu, **kw) if wu != 'nm' or kw else s1.sample(probe_nm), float)
            except Exception as e:
                acc.violation(f'sample:raises:{type(e).__name__}', dict(case, waveunit=wu), repr(e))
                continue
            exp = np.where(inside, np.interp(probe_nm, g_nm, v), fill)
            # a probe that a unit conversion moves across an end of the range may take either value
            edge = (np.abs(probe_nm - g_nm[0]) < 1e-9 * g_nm[0]) | (np.abs(probe_nm - g_nm[-1]) < 1e-9 * g_nm[-1])
            ok = np.isclose(got, exp, rtol=1e-9, atol=1e-12) | (edge & np.isclose(got, fill))
            if got.shape != exp.shape or not np.all(ok):
                k = int(np.argmin(ok)) if got.shape == exp.shape else -1
                acc.violation(f'sample:value:{"own-unit" if wu == u else "other-unit"}:{"default-fill" if not kw else "fill"}', dict(case, waveunit=wu, fill=fill),
                              f'sample at {probe_nm[k]} nm (given in {wu}) = {got[k] if k >= 0 else got.shape}, expected {exp[k] if k >= 0 else exp.shape}')
            acc.transitions += 1
    acc.cls('defaults')
    acc.case(case, outcome='defaults')


DISPATCH = {'defaults': chk_defaults, 'samenum': chk_same_numbers, 'valhist': chk_value_history, 'binary': chk_binary, 'commute': chk_commute, 'unitinv': chk_unit_invariance, 'scalar': chk_scalar, 'badtype': chk_badtype}


DISPATCH['histop'] = histories.chk_case

def t_pair(arg, acc):
    tier, seed, pair, opn = arg['tier'], arg['seed'], arg['pair'], arg['op']
    for sampling in ('min', 'left', 'right', 25.0, 70.0):
        for method in ('linear', 'quadratic', 'cubic'):
            for fill in (0, 1, 0.5):
                acc.states += 1
                for u1, u2 in itertools.product(UNITS, repeat=2):
                    acc.transitions += 1
                    chk_binary({'kind': 'binary', 'pair': pair, 'units': [u1, u2], 'op': opn, 'sampling': sampling,
                                'method': method, 'fill': fill}, acc, seed)
    # the reversed pair (result expressed in the other operand's unit)
    for method in ('linear', 'cubic'):
        for u1, u2 in itertools.product(UNITS, repeat=2):
            acc.transitions += 1
            chk_binary({'kind': 'binary', 'pair': pair[::-1], 'units': [u1, u2], 'op': opn, 'sampling': 'min', 'method': method,
                        'fill': 1}, acc, seed)
    if opn == 'add':
        for method in ('linear', 'cubic'):
            for fill in (0, 1):
                for u1, u2 in itertools.product(UNITS, repeat=2):
                    chk_commute({'kind': 'commute', 'pair': pair, 'units': [u1, u2], 'method': method, 'fill': fill}, acc, seed)
        # density-valued operands in mixed units
        for u1, u2 in itertools.product(UNITS, repeat=2):
            for o in ('add', 'subtract'):
                chk_binary({'kind': 'binary', 'pair': pair, 'units': [u1, u2], 'op': o, 'sampling': 'min', 'method': 'linear',
                            'fill': 0, 'valueunit': 'flam'}, acc, seed)


def t_scalar(arg, acc):
    for name in GRIDS:
        for unit in UNITS:
            for opn in OPS:
                for kind in ('int', 'float', 'list', 'tuple', 'ndarray'):
                    acc.transitions += 1
                    chk_scalar({'kind': 'scalar', 'name': name, 'unit': unit, 'op': opn, 'other': kind}, acc, arg['seed'])
    chk_badtype({'kind': 'badtype'}, acc, arg['seed'])
    for pair in (('A', 'partial'), ('A', 'nested'), ('nonuniform', 'A'), ('A', 'disjoint')):
        for unit in UNITS:
            chk_defaults({'kind': 'defaults', 'pair': pair, 'unit': unit}, acc, arg['seed'])
    for opn in ('add', 'multiply', 'subtract'):
        for sampling in ('min', 'left', 'right'):
            for fill in (0, 1):
                chk_same_numbers({'kind': 'samenum', 'op': opn, 'sampling': sampling, 'fill': fill}, acc, arg['seed'])
    for pair in (('A', 'same'), ('A', 'nested'), ('nonuniform', 'nested')):
        for opn in OPS:
            for method in ('linear', 'quadratic', 'cubic'):
                chk_value_history({'kind': 'valhist', 'pair': list(pair), 'op': opn, 'method': method}, acc, arg['seed'])


def run(tier, seed, acc, procs=None):
    pairs = PAIRS if tier != 'quick' else PAIRS[:15]
    tasks = [('t_pair', {'tier': tier, 'seed': seed, 'pair': list(p), 'op': o}) for p in pairs for o in OPS]
    tasks.append(('t_scalar', {'seed': seed}))
    acc.states += 1
    acc.transitions += len(tasks)
    tasks += histories.tasks_for(PID, seed)        # pairwise call histories over the operations this property is anchored in
    engine.run_parallel(MOD, tasks, acc, procs)
    return {
        'rule': 'operand pairs (identical, nested, partially overlapping, disjoint, non-uniform grids on integer nm) x 5 operators x '
                'sampling {min,left,right,25} x method {linear,quadratic,cubic} x fill {0,1} x wavelength unit of each operand '
                '{nm,um,m,angstrom}^2; scalar / list / tuple / ndarray operands; commutativity; unit invariance incl. density units.',
        'bounds': {'pairs': [list(p) for p in pairs], 'units': UNITS},
        'assumptions': ['reference: piecewise-linear interpolation inside an operand range, fill outside, operator applied point by point',
                        'spline methods are judged at grid points that coincide with operand samples',
                        'grid points that coincide with a range end only up to rounding are not judged; one extra grid interval is tolerated'],
        'require': {'same-numbers': 10, 'value-history': 30, 'mixed-units': 1000, 'same-unit': 500, 'nm-only': 100, 'scalar': 100, 'commute': 50, 'defaults': 12},
    }


def replay(case, acc):
    if case.get('kind') == 'histop':
        import os as _os
        return histories.chk_case(case, acc, int(_os.environ.get('VERIF_SEED', '0') or 0))
    seed = int(os.environ.get('VERIF_SEED', '0') or 0)
    DISPATCH[case['kind']](case, acc, seed)
