"""C09 -- FFT propagation agrees with DFT propagation; scratch space is transparent."""
import itertools
import os

import numpy as np

from .. import engine, optics as op, refmodel as rm
from .. import histories
from ..histories import t_callhist, t_cross      # worker tasks of the history harness (mc/histories.py)

PID = 'C09'
MOD = 'mc.props.c09'

DXDU = 2.0 ** -24      # dx*du for the isotropic configurations (dx = 2^-7, du = 2^-17), z = 1


def pupils(tier):
    s = [(3, 3), (4, 4), (5, 5), (6, 6), (4, 5)]
    if tier != 'quick':
        s += [(5, 4), (7, 7), (2, 3)]
    return s


def grids(pupil, tier):
    n = max(pupil)
    return list(range(n, n + (6 if tier == 'quick' else 8)))


def make(cfg, seed, opd_scale=1.0, wl=None, tilt=None):
    import lentil
    shape = tuple(cfg['pupil'])
    support = cfg.get('support', 'full')
    amp, opd, mask = op.pupil_arrays(shape, 'full' if support == 'seg2' else support, seed, tag=shape[0] * 10 + shape[1])
    wl0 = cfg['wl']
    use_wl = wl0 if wl is None else wl
    dx = tuple(cfg['dx']) if np.ndim(cfg['dx']) else cfg['dx']
    kwm = {}
    if support == 'seg2':
        # two segments -> the wavefront holds more than one Field
        m3 = np.zeros((2,) + shape)
        m3[0][:, :shape[1] // 2] = 1
        m3[1][:, shape[1] // 2:] = 1
        kwm['mask'] = m3
    pupil = lentil.Pupil(amplitude=amp.copy(), opd=(opd * opd_scale).copy(), pixelscale=dx, focal_length=cfg['z'], **kwm)
    if tilt == 'fit':
        pupil = pupil.fit_tilt()
    w = lentil.Wavefront(use_wl, tilt=[1e-6, -2e-6] if tilt == 'wavefront' else None) * pupil
    if tilt == 'plane':
        w = w * lentil.Tilt(x=1e-6, y=0)
    if tilt == 'dispersive':
        w = w * lentil.DispersiveTilt(trace=[1.0, 0.0], dispersion=[2.0 ** -10, use_wl * 0.99])
    if tilt == 'grism':
        import warnings as _w
        with _w.catch_warnings():
            _w.simplefilter('ignore')
            w = w * lentil.Grism(trace=[1.0, 0.0], dispersion=[2.0 ** -10, use_wl * 0.99])
    if tilt == 'duck':
        class _MyTilt:                       # any object that can shift a Field is tilt metadata
            def shift(self, xs=0, ys=0, z=0, **kwargs):
                return xs + 1e-5, ys, z
        for f in w.data:
            f.tilt.append(_MyTilt())
    return w, op.phasor(amp, opd, wl0)


def cfg_for(pupil, N, os_, eps_sign, aniso=False):
    """wavelength that makes the FFT grid N (per axis (2N, N) when aniso; 'z2': focal length 2)."""
    if aniso == 'z2':
        dx, du = 2.0 ** -7, 2.0 ** -17
        wl_rep = N * DXDU / os_ / 2.0
        eps = eps_sign * 0.2 / N
        return {'pupil': pupil, 'dx': dx, 'du': du, 'z': 2.0, 'os': os_, 'wl': wl_rep * (1 + eps), 'N': (N, N), 'wl_rep': wl_rep, 'eps': eps_sign}
    if aniso == 'wide':
        dx, du = (2.0 ** -7, 2.0 ** -7), (2.0 ** -16, 2.0 ** -17)
        Ngrid = (N, 2 * N)
        wl_rep = N * 2.0 ** -23 / os_
    elif aniso:
        dx, du = (2.0 ** -7, 2.0 ** -7), (2.0 ** -17, 2.0 ** -16)
        Ngrid = (2 * N, N)
        wl_rep = N * 2.0 ** -23 / os_
    else:
        dx, du = 2.0 ** -7, 2.0 ** -17
        Ngrid = (N, N)
        wl_rep = N * DXDU / os_
    eps = eps_sign * 0.2 / (2 * N if aniso else N)
    return {'pupil': pupil, 'dx': dx, 'du': du, 'z': 1.0, 'os': os_, 'wl': wl_rep * (1 + eps), 'N': Ngrid,
            'wl_rep': wl_rep, 'eps': eps_sign}


def accepted_shapes(Ngrid, os_, tier):
    mr, mc = Ngrid[0] / os_, Ngrid[1] / os_
    fr_, fc = int(np.floor(mr)), int(np.floor(mc))
    out = [None]
    cand = {(fr_, fc), (1, 1), (max(1, fr_ - 1), fc), (fr_, max(1, fc - 1)), (max(1, fr_ // 2), max(1, fc // 2 + 1)), (2, 3), (3, 2)}
    if tier != 'quick':
        cand |= {(a, b) for a in range(1, fr_ + 1, 2) for b in range(1, fc + 1, 3)}
    for s in sorted(cand):
        if 1 <= s[0] <= mr and 1 <= s[1] <= mc:
            out.append(s)
    if fr_ == fc:
        out.append(fr_)       # scalar form
    return out


SCRATCH = ['none', 'exact', 'plus1', 'plus2', 'dirty', 'nan-margin', 'zero-sum', 'nonfinite']


def build_scratch(mode, Ngrid):
    if mode == 'none':
        return None
    if mode == 'exact':
        return np.zeros(Ngrid, dtype=complex)
    if mode == 'plus1':
        return np.zeros((Ngrid[0] + 1, Ngrid[1] + 1), dtype=complex)
    if mode == 'plus2':
        return np.zeros((Ngrid[0] + 2, Ngrid[1] + 1), dtype=complex)
    if mode == 'dirty':
        return np.full((Ngrid[0] + 1, Ngrid[1] + 2), 7 + 1j, dtype=complex)
    if mode == 'zero-sum':
        # prior content that cancels exactly (sum == 0, mean == 0) is prior content all the same
        s = np.zeros((Ngrid[0] + 1, Ngrid[1]), dtype=complex)
        k = np.arange(Ngrid[0] * Ngrid[1]).reshape(Ngrid)
        s[:Ngrid[0], :Ngrid[1]] = (k - k[::-1, ::-1]) * (1 + 2j)      # antisymmetric inside the working region
        return s
    if mode == 'nonfinite':
        # an np.empty-like buffer: NaN and infinities everywhere, the working region included
        s = np.full((Ngrid[0] + 1, Ngrid[1] + 1), np.nan + 0j, dtype=complex)
        s[::2, ::3] = np.inf
        s[1::2, 1::3] = -np.inf * 1j
        return s
    if mode == 'nan-margin':
        s = np.full((Ngrid[0] + 2, Ngrid[1] + 2), np.nan + 0j, dtype=complex)
        s[:Ngrid[0], :Ngrid[1]] = 3 - 2j
        return s
    raise ValueError(mode)


def chk(case, acc, seed):
    import lentil
    cfg = case['cfg']
    cfg = dict(cfg, pupil=tuple(cfg['pupil']), N=tuple(cfg['N']))
    os_, Ngrid = cfg['os'], cfg['N']
    du = tuple(cfg['du']) if np.ndim(cfg['du']) else cfg['du']
    w, fin = make(cfg, seed)
    shape = case['shape']
    shape = tuple(shape) if isinstance(shape, list) else shape
    smode = case['scratch']
    # advertised scratch shape
    adv = lentil.scratch_shape(cfg['wl'], cfg['dx'], du, cfg['z'], os_)
    if tuple(int(a) for a in adv) != tuple(Ngrid):
        acc.violation('fft:scratch_shape', case, f'scratch_shape={adv} but the FFT grid is {Ngrid}')
    if smode == 'exact':
        # several wavelengths: one buffer that is large enough for each of them, i.e. the shape of the longest
        for wls in ([cfg['wl'] * 0.5, cfg['wl']], [cfg['wl'], cfg['wl'] * 0.75, cfg['wl'] * 0.3], np.array([cfg['wl'] * 0.9, cfg['wl']])):
            advm = lentil.scratch_shape(wls, cfg['dx'], du, cfg['z'], os_)
            if tuple(int(a) for a in advm) != tuple(Ngrid):
                acc.violation('fft:scratch_shape:several-wavelengths', dict(case, wavelengths=[float(x) for x in wls]),
                              f'scratch_shape for wavelengths {list(wls)} is {advm}; the longest of them needs {Ngrid}')
                break
        acc.cls('scratch_shape:several')
    scratch = build_scratch(smode, tuple(int(a) for a in adv))
    wdig = [(np.asarray(f.data).tobytes(), tuple(np.asarray(f.offset).tolist())) for f in w.data]
    acc.cls('grid-odd' if Ngrid[1] % 2 else 'grid-even')
    acc.cls('scratch:' + smode)
    if cfg['eps'] != 0:
        acc.cls('wavelength-differs')
    try:
        out = lentil.propagate_fft(w, pixelscale=du, shape=shape, oversample=os_, scratch=scratch)
        got = out.field
    except Exception as e:
        key = f'fft:raises:{type(e).__name__}:scratch={smode}' if smode != 'none' else f'fft:raises:{type(e).__name__}'
        acc.violation(key, case, f'propagate_fft raised {e!r} (pupil {cfg["pupil"]}, grid {Ngrid}, shape {shape})')
        acc.case(case, outcome='raise')
        return
    if shape is None:
        shape_out = Ngrid
    else:
        sp = op.pair(shape)
        shape_out = (sp[0] * os_, sp[1] * os_)
    par = f'grid={"odd" if Ngrid[1] % 2 else "even"},pupil={"odd" if cfg["pupil"][1] % 2 else "even"}'
    if smode != 'none':
        # scratch must be transparent: compare with the scratch-free call (itself judged by the 'none' leaves)
        w3, _ = make(cfg, seed)
        try:
            base_field = lentil.propagate_fft(w3, pixelscale=du, shape=shape, oversample=os_).field
            if not np.allclose(got, base_field, rtol=0, atol=1e-12, equal_nan=False):
                acc.violation(f'fft:scratch-changes-result:{smode}', case,
                              f'result with scratch differs from the scratch-free result by {rm.maxerr(got, base_field):.3e}')
        except Exception as e:
            acc.violation(f'fft:raises:{type(e).__name__}', case, repr(e))
        acc.case(case, outcome=f'scratch-{smode}')
        return
    if tuple(got.shape) != tuple(shape_out):
        acc.violation('fft:shape', case, f'field shape {got.shape} != {shape_out}')
    else:
        from fractions import Fraction
        ref = op.RefPlane(fin, (Fraction(1, Ngrid[0]), Fraction(1, Ngrid[1])), half=max(Ngrid) // 2 + 2)
        exp = ref.on_grid(shape_out)
        tol = 1e-9 * (1 + np.sum(np.abs(fin)))
        err = rm.maxerr(got, exp)
        if not err <= tol:
            acc.violation(f'fft:value:{par}', case,
                          f'max |FFT field - Fraunhofer sum at the reported wavelength| = {err:.3e}')
        # against lentil's own DFT propagator at the reported wavelength (same phasor: OPD rescaled)
        base = None
        if shape is not None:
            base = shape
        elif Ngrid[0] % os_ == 0 and Ngrid[1] % os_ == 0:
            base = (Ngrid[0] // os_, Ngrid[1] // os_)
        if base is not None:
            wl_rep = out.wavelength
            w2, _ = make(cfg, seed, opd_scale=wl_rep / cfg['wl'], wl=wl_rep)
            d = lentil.propagate_dft(w2, pixelscale=du, shape=base, oversample=os_).field
            e2 = rm.maxerr(got, d)
            if not e2 <= 10 * tol:
                acc.violation(f'fft:vs-dft:{par}', case,
                              f'max |propagate_fft - propagate_dft| = {e2:.3e}')
            acc.cls('vs-dft')
    if abs(out.wavelength - cfg['wl_rep']) > 1e-12 * cfg['wl_rep']:
        acc.violation('fft:reported-wavelength', case, f'{out.wavelength} != {cfg["wl_rep"]}')
    if out.ptype != lentil.image:
        acc.violation('fft:ptype', case, str(out.ptype))
    if not np.allclose(np.broadcast_to(out.pixelscale, (2,)), np.broadcast_to(du, (2,)) / os_, rtol=1e-15):
        acc.violation('fft:pixelscale', case, str(out.pixelscale))
    if [(np.asarray(f.data).tobytes(), tuple(np.asarray(f.offset).tolist())) for f in w.data] != wdig:
        acc.violation('fft:input-mutated', case, 'input wavefront changed')
    acc.case(case, outcome=f'{par}-{smode}')


def chk_refuse(case, acc, seed):
    """too-large shapes -> ValueError; too-small scratch -> ValueError; tilt -> NotImplementedError."""
    import lentil
    cfg = dict(case['cfg'], pupil=tuple(case['cfg']['pupil']), N=tuple(case['cfg']['N']))
    os_, Ngrid = cfg['os'], cfg['N']
    du = tuple(cfg['du']) if np.ndim(cfg['du']) else cfg['du']
    what = case['what']
    if what == 'shape':
        w, _ = make(cfg, seed)
        for big in [(int(np.floor(Ngrid[0] / os_)) + 1, 1), (1, int(np.floor(Ngrid[1] / os_)) + 1)]:
            try:
                lentil.propagate_fft(w, du, shape=big, oversample=os_)
                acc.violation('fft:oversize-shape-accepted', dict(case, shape=big), f'shape {big} > grid {Ngrid}/{os_} accepted')
            except ValueError:
                pass
            except Exception as e:
                acc.violation('fft:oversize-shape-wrong-exception', dict(case, shape=big), repr(e))
    elif what == 'scratch-small':
        w, _ = make(cfg, seed)
        for sh in [(Ngrid[0] - 1, Ngrid[1]), (Ngrid[0], Ngrid[1] - 1)]:
            try:
                lentil.propagate_fft(w, du, oversample=os_, scratch=np.zeros(sh, dtype=complex))
                acc.violation('fft:small-scratch-accepted', dict(case, scratch_shape=sh), f'scratch {sh} < grid {Ngrid} accepted')
            except ValueError:
                pass
            except Exception as e:
                acc.violation('fft:small-scratch-wrong-exception', dict(case, scratch_shape=sh), repr(e))
    elif what == 'image-wavefront-tilt':
        import lentil as _l
        shape = tuple(cfg['pupil'])
        amp, opd, _m = op.pupil_arrays(shape, 'full', seed, tag=5)
        for how in ('wavefront', 'plane'):
            w = _l.Wavefront(cfg['wl'], focal_length=cfg['z'], tilt=[1e-6, -2e-6] if how == 'wavefront' else None) * \
                _l.Image(amplitude=amp.copy(), opd=opd.copy(), pixelscale=cfg['dx'])
            if how == 'plane':
                w = w * _l.Tilt(x=1e-6, y=0)
            try:
                _l.propagate_fft(w, du, oversample=os_)
                acc.violation(f'fft:tilt-not-refused:image-plane:{how}', dict(case, how=how), 'an image-plane wavefront carrying tilt metadata was propagated by the FFT path')
            except NotImplementedError:
                pass
            except Exception as e:
                acc.violation(f'fft:tilt-wrong-exception:image-plane:{how}', dict(case, how=how), repr(e))
    else:
        w, _ = make(cfg, seed, tilt=what)
        try:
            lentil.propagate_fft(w, du, oversample=os_)
            acc.violation(f'fft:tilt-not-refused:{what}', case, 'wavefront carrying tilt metadata was propagated by the FFT path')
        except NotImplementedError:
            pass
        except Exception as e:
            acc.violation(f'fft:tilt-wrong-exception:{what}', case, repr(e))
        # tilt metadata on some but not all Fields of a segmented wavefront: still a tilted wavefront (w9-C09-1)
        cfg2 = dict(cfg); cfg2['support'] = 'seg2'
        for k in (0, -1):
            w2, _ = make(cfg2, seed)
            if len(w2.data) < 2:
                break
            w2.data[k].tilt.append(lentil.Tilt(x=1e-6, y=-2e-6))
            try:
                lentil.propagate_fft(w2, du, oversample=os_)
                acc.violation(f'fft:tilt-not-refused:partial', dict(case, field=k), 'a segmented wavefront with tilt metadata on one of its Fields only was propagated by the FFT path')
            except NotImplementedError:
                acc.cls('refusal:partial-tilt')
            except Exception as e:
                acc.violation(f'fft:tilt-wrong-exception:partial', dict(case, field=k), repr(e))
    acc.cls('refusal')
    acc.case(case, outcome='refuse-' + what)


SEQ_N = [12, 9, 13]


def chk_hist(case, acc, seed):
    """E2: one shared scratch buffer reused across a sequence of propagations; earlier results are kept and looked at again
    after the later calls (a returned wavefront must not live in the caller's scratch buffer)"""
    import lentil
    seq = case['seq']
    scratch = np.full((15, 14), 9 - 4j, dtype=complex)
    held = []
    for step, N in enumerate(seq):
        cfg = cfg_for((5, 4) if N != 9 else (6, 6), N, 1 if N % 2 else 2, 0)
        cfg['support'] = 'seg2' if step % 2 else 'full'
        w, fin = make(cfg, seed)
        out = lentil.propagate_fft(w, cfg['du'], oversample=cfg['os'], scratch=scratch)
        a = np.array(out.field, copy=True)
        w2, _ = make(cfg, seed)
        b = lentil.propagate_fft(w2, cfg['du'], oversample=cfg['os']).field
        if not np.allclose(a, b, rtol=0, atol=1e-12):
            acc.violation('fft:scratch-history', dict(case, step=step),
                          f'step {step} (grid {N}) with the shared scratch differs from the scratch-free result by {rm.maxerr(a, b):.3e}')
        held.append((out, a))
        acc.transitions += 1
    scratch[...] = -1 + 5j            # the caller re-uses its buffer for something else
    for step, (out, a) in enumerate(held):
        if not np.array_equal(out.field, a):
            acc.violation('fft:result-aliases-scratch', dict(case, step=step),
                          f'the wavefront returned by step {step} changed after the scratch buffer was used again')
    acc.states += 1
    acc.cls('history')
    acc.case(case, outcome='hist')


DISPATCH = {'fft': chk, 'refuse': chk_refuse, 'hist': chk_hist}


DISPATCH['histop'] = histories.chk_case

def t_cfg(arg, acc):
    tier, seed, pupil = arg['tier'], arg['seed'], tuple(arg['pupil'])
    for N in grids(pupil, tier):
        for os_ in (1, 2, 3):
            for eps in (0, 1, -1):
                for aniso in (False, True, 'wide', 'z2'):
                    if aniso and (eps != 0 or N > max(pupil) + 2):
                        continue
                    for support in (('full', 'offcentre', 'block', 'seg2') if eps == 0 and not aniso else ('full',)):
                        cfg = dict(cfg_for(pupil, N, os_, eps, aniso), support=support)
                        acc.states += 1
                        for shape in accepted_shapes(cfg['N'], os_, tier):
                            for sm in SCRATCH:
                                if sm not in ('none', 'exact') and eps != 0:
                                    continue
                                acc.transitions += 1
                                chk({'kind': 'fft', 'cfg': cfg, 'shape': shape, 'scratch': sm}, acc, seed)
                        if eps == 0 and support == 'full':
                            for what in ('shape', 'scratch-small', 'fit', 'wavefront', 'plane', 'dispersive', 'grism', 'duck', 'image-wavefront-tilt'):
                                acc.transitions += 1
                                chk_refuse({'kind': 'refuse', 'cfg': cfg, 'what': what}, acc, seed)


def t_hist(arg, acc):
    for seq in itertools.product(SEQ_N, repeat=arg['len']):
        chk_hist({'kind': 'hist', 'seq': list(seq)}, acc, arg['seed'])


def run(tier, seed, acc, procs=None):
    tasks = [('t_cfg', {'tier': tier, 'seed': seed, 'pupil': p}) for p in pupils(tier)]
    for L in ((1, 2) if tier == 'quick' else (1, 2, 3)):
        tasks.append(('t_hist', {'len': L, 'seed': seed}))
    acc.states += 1
    acc.transitions += len(tasks)
    tasks += histories.tasks_for(PID, seed)        # pairwise call histories over the operations this property is anchored in
    engine.run_parallel(MOD, tasks, acc, procs)
    return {
        'rule': 'cross product pupil shape x FFT grid N in {n..n+5} (both parities, via the wavelength, incl. wavelengths that '
                'differ from the reported one) x oversample 1..3 x (isotropic, per-axis) sampling x every accepted output shape '
                'on a stride x scratch mode; refusals (oversize shape, undersize scratch, three kinds of tilt metadata); all '
                'sequences of propagations over one shared scratch buffer.',
        'bounds': {'pupils': pupils(tier), 'grid_offsets': len(grids((3, 3), tier)), 'oversample': [1, 2, 3], 'scratch_modes': SCRATCH,
                   'history_len': 2 if tier == 'quick' else 3},
        'assumptions': ['reference: Fraunhofer sum with alpha = 1/N (the reported wavelength) applied to the input-plane field',
                        "second oracle: lentil's propagate_dft at the reported wavelength with the OPD rescaled so the phasor is unchanged",
                        'per-axis sampling only where both axes report the same wavelength'],
        'require': {'grid-odd': 100, 'grid-even': 100, 'scratch:exact': 100, 'scratch:dirty': 50, 'vs-dft': 100,
                    'refusal': 50, 'history': 3, 'wavelength-differs': 100, 'scratch_shape:several': 100},
    }


def replay(case, acc):
    if case.get('kind') == 'histop':
        import os as _os
        return histories.chk_case(case, acc, int(_os.environ.get('VERIF_SEED', '0') or 0))
    seed = int(os.environ.get('VERIF_SEED', '0') or 0)
    DISPATCH[case['kind']](case, acc, seed)
