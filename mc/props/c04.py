"""C04 -- tilt carried as metadata is optically identical to tilt in the OPD."""
import itertools
import math
import os

import numpy as np

from .. import engine, optics as op, refmodel as rm
from .. import histories
from ..histories import t_callhist, t_cross      # worker tasks of the history harness (mc/histories.py)

PID = 'C04'
MOD = 'mc.props.c04'
WL, Z = op.WL, 1.0

# displacements in oversampled output samples (row, col): 0, sub-pixel, 1.6, 4, larger than the output; both signs; mixed
DISPL = [(0.0011, -0.0007), (0, 0), (0.25, 0), (0, -1.6), (1.6, 0.25), (-4, 1.6), (4, 4), (30, 0), (0, -30), (-0.25, -0.25), (2.5, -3)]
REPS = ['opd', 'tilt_after', 'tilt_before', 'wavefront', 'fit', 'split', 'fit_then_tilt', 'fit_plane_behind', 'fit_plane_front']


def pupil_shapes(tier):
    return [(4, 4), (5, 4)] if tier == 'quick' else [(4, 4), (5, 4), (4, 5), (5, 5)]


def seg_masks(shape, aperture):
    """monolithic: one mask with a missing corner; 'seg2': left/right halves with a gap-less split"""
    full = np.ones(shape)
    full[0, 0] = 0
    if aperture == 'mono':
        return full[None]
    if aperture in ('seg3', 'seg4'):
        # three / four segments (horizontal bands and a split band): the per-segment bookkeeping beyond the second segment
        n = int(aperture[-1])
        out = np.zeros((n,) + tuple(shape))
        for r in range(shape[0]):
            for c in range(shape[1]):
                if full[r, c]:
                    out[(r * n) // shape[0] if n == 3 else ((r * 2) // shape[0]) * 2 + (c * 2) // shape[1], r, c] = 1
        return out[[k for k in range(n) if out[k].sum() >= 3]]
    left = full.copy(); left[:, shape[1] // 2:] = 0
    right = full.copy(); right[:, :shape[1] // 2] = 0
    return np.stack([left, right])


def coords(shape):
    rr, cc = np.meshgrid(np.arange(shape[0]) - shape[0] // 2, np.arange(shape[1]) - shape[1] // 2, indexing='ij')
    return rr.astype(float), cc.astype(float)


def ramp(shape, dx, tx, ty):
    """OPD of an x-tilt tx and y-tilt ty: tx*r*dx_r - ty*c*dx_c (the basis Plane.ptt_vector documents)"""
    rr, cc = coords(shape)
    dxr, dxc = op.pair(dx)
    return tx * rr * dxr - ty * cc * dxc


def angles_for(displ, du, os_, z=Z):
    """angles (tx, ty) that displace the image by displ=(rows, cols) oversampled samples"""
    dur, duc = op.pair(du)
    return displ[0] * dur / (z * os_), -displ[1] * duc / (z * os_)


def displ_for(tx, ty, du, os_, z=Z):
    dur, duc = op.pair(du)
    return z * tx * os_ / dur, -z * ty * os_ / duc


def ls_tilt(opd, mask, dx):
    """independent least squares of [1, r*dx_r, -c*dx_c] on the mask pixels -> (piston, tx, ty)"""
    rr, cc = coords(opd.shape)
    dxr, dxc = op.pair(dx)
    sel = mask != 0
    Amat = np.stack([np.ones(sel.sum()), rr[sel] * dxr, -cc[sel] * dxc], axis=1)
    t, *_ = np.linalg.lstsq(Amat, opd[sel], rcond=None)
    return t


def admissible(s):
    """integer displacements within one sample of the exact shift (no policy on rounding)"""
    lo, hi = math.ceil(s - 1 - 1e-6), math.floor(s + 1 + 1e-6)
    return list(range(lo, hi + 1))


def window_box(shape_out, win, d, maskbox):
    R, C = shape_out
    m = np.zeros((R, C), dtype=bool)
    r0 = R // 2 - win[0] // 2 + d[0]
    c0 = C // 2 - win[1] // 2 + d[1]
    ra, rb = max(r0, 0), min(r0 + win[0], R)
    ca, cb = max(c0, 0), min(c0 + win[1], C)
    if ra < rb and ca < cb:
        m[ra:rb, ca:cb] = True
    if maskbox is not None:
        m &= maskbox
    return m


def build(cfg, seed):
    """-> wavefront before propagation, per-segment reference inputs [(field_seg incl. all tilt as OPD, exact displacement)]"""
    import lentil
    shape = tuple(cfg['pupil'])
    dx = tuple(cfg['dx']) if np.ndim(cfg['dx']) else cfg['dx']
    du = tuple(cfg['du']) if np.ndim(cfg['du']) else cfg['du']
    os_ = cfg['os']
    masks = seg_masks(shape, cfg['aperture'])
    nseg = masks.shape[0]
    amp = rm.generic_real(shape, seed, tag=11, lo=0.4, hi=1.0) * (masks.sum(0) > 0)
    base = rm.generic_real(shape, seed, tag=12, lo=-0.2, hi=0.2) * WL
    rep = cfg['rep']
    d0 = tuple(cfg['displ'])
    tx, ty = angles_for(d0, du, os_)
    # per-segment additional tilt (only representable as OPD or through fit_tilt)
    seg_extra = [(0.0, 0.0)] * nseg
    if cfg.get('per_segment') and nseg > 1:
        seg_extra = [angles_for((1.25, -0.5), du, os_), angles_for((-2.0, 1.0), du, os_)]
    opd_total = base.copy()
    for k in range(nseg):
        opd_total += ramp(shape, dx, tx + seg_extra[k][0], ty + seg_extra[k][1]) * masks[k]
    mask_arg = masks[0] if nseg == 1 else masks
    kw = dict(pixelscale=dx, focal_length=Z)
    segs = []
    for k in range(nseg):
        segs.append(op.phasor(amp, opd_total, WL, masks[k]))
    if rep == 'opd':
        w = lentil.Wavefront(WL) * lentil.Pupil(amplitude=amp.copy(), opd=opd_total.copy(), mask=mask_arg.copy(), **kw)
        shifts = [(0.0, 0.0)] * nseg
    elif rep in ('fit', 'fit_then_tilt'):
        p = lentil.Pupil(amplitude=amp.copy(), opd=opd_total.copy(), mask=mask_arg.copy(), **kw).fit_tilt()
        w = lentil.Wavefront(WL) * p
        extra = (0.0, 0.0)
        if rep == 'fit_then_tilt':
            # one more angular tilt on top of the fitted ones: every Field must receive it exactly once
            extra = angles_for((1.5, -0.5), du, os_)
            w = w * lentil.Tilt(x=extra[0], y=extra[1])
            segs = [op.phasor(amp, opd_total + ramp(shape, dx, extra[0], extra[1]), WL, masks[k]) for k in range(nseg)]
        shifts = []
        for k in range(nseg):
            t = ls_tilt(opd_total, masks[k], dx)
            shifts.append(displ_for(t[1] + extra[0], t[2] + extra[1], du, os_))
    else:
        # tilt metadata carries (tx, ty); per-segment extras stay in the OPD
        opd_rest = base.copy()
        for k in range(nseg):
            opd_rest += ramp(shape, dx, seg_extra[k][0], seg_extra[k][1]) * masks[k]
        pupil = lentil.Pupil(amplitude=amp.copy(), opd=opd_rest.copy(), mask=mask_arg.copy(), **kw)
        if rep == 'tilt_after':
            w = lentil.Wavefront(WL) * pupil * lentil.Tilt(x=tx, y=ty)
        elif rep == 'tilt_before':
            w = lentil.Wavefront(WL) * lentil.Tilt(x=tx, y=ty) * pupil
        elif rep == 'wavefront':
            w = lentil.Wavefront(WL, tilt=[tx, ty]) * pupil
        elif rep in ('fit_plane_behind', 'fit_plane_front'):
            # the tilt sits in a second, full-aperture plane as fitted metadata, behind / in front of the (segmented) pupil: every
            # Field that passes that plane inherits its Tilt exactly once
            full = ramp(shape, dx, tx, ty)
            B = lentil.Pupil(amplitude=np.ones(shape), opd=full.copy(), **kw).fit_tilt()
            w = (lentil.Wavefront(WL) * pupil * B) if rep == 'fit_plane_behind' else (lentil.Wavefront(WL) * B * pupil)
            t = ls_tilt(full, np.ones(shape), dx)
            shifts = [displ_for(t[1], t[2], du, os_)] * nseg
            return w, segs, shifts
        elif rep == 'split':
            # half of the tilt enters with the wavefront, the other half through a Tilt plane behind the (segmented) pupil
            w = lentil.Wavefront(WL, tilt=[tx / 2, ty / 2]) * pupil * lentil.Tilt(x=tx / 2, y=ty / 2)
        else:
            raise ValueError(rep)
        shifts = [displ_for(tx, ty, du, os_)] * nseg
    return w, segs, shifts


def chk_rep(case, acc, seed, refs=None):
    import lentil
    cfg = case['cfg']
    du = tuple(cfg['du']) if np.ndim(cfg['du']) else cfg['du']
    os_ = cfg['os']
    shape = tuple(cfg['shape'])
    pshape = cfg['prop_shape']
    shape_out = (shape[0] * os_, shape[1] * os_)
    try:
        w, segs, shifts = build(cfg, seed)
    except Exception as e:
        acc.violation(f'tilt:{cfg["rep"]}:build-raises:{type(e).__name__}', case, repr(e))
        acc.case(case, outcome='raise')
        return
    mask = None
    maskbox = None
    if cfg.get('mask'):
        mask = np.zeros(shape_out)
        mask[shape_out[0] // 4: shape_out[0] - 1, 1: shape_out[1] - shape_out[1] // 4] = 1
        mask[shape_out[0] // 2, shape_out[1] // 2] = 0
        maskbox = op.bbox_mask(mask)
    try:
        out = lentil.propagate_dft(w, du, shape=shape, prop_shape=pshape, oversample=os_, mask=mask)
        val, cnt, outside = op.render(out)
    except Exception as e:
        acc.violation(f'tilt:{cfg["rep"]}:propagate-raises:{type(e).__name__}', case, repr(e))
        acc.case(case, outcome='raise')
        return
    sq = 'square' if np.ndim(cfg['du']) == 0 else 'nonsquare-du'
    alpha = op.alpha_exact(cfg['dx'], du, WL, Z, os_)
    half = max(shape_out) // 2 + 2
    refs = [op.RefPlane(f, alpha, half).on_grid(shape_out) for f in segs]
    pw = shape if pshape is None else tuple(pshape)
    win = (pw[0] * os_, pw[1] * os_)
    tol = 1e-8 * (1 + sum(np.sum(np.abs(f)) for f in segs))
    cands = [list(itertools.product(admissible(s[0]), admissible(s[1]))) for s in shifts]
    evaluated = cnt > 0
    ok = False
    best = None
    for combo in itertools.product(*cands):
        tot = np.zeros(shape_out, dtype=complex)
        cover = np.zeros(shape_out, dtype=bool)
        for ref, d in zip(refs, combo):
            wb = window_box(shape_out, win, d, maskbox)
            tot += np.where(wb, ref, 0)
            cover |= wb
        same_cover = np.array_equal(cover, evaluated)
        err = rm.maxerr(val, tot)
        if same_cover and err <= tol:
            ok = True
            break
        if best is None or (same_cover, -err) > (best[0], -best[1]):
            best = (same_cover, err, combo)
    big = any(abs(s[0]) > shape_out[0] or abs(s[1]) > shape_out[1] for s in shifts)
    if not ok:
        kind = 'value' if best[0] else 'window'
        acc.violation(f'tilt:{cfg["rep"]}:{kind}:{sq}', case,
                      f'no admissible integer displacement reproduces the OPD-ramp reference: best candidate {best[2]} '
                      f'window-match={best[0]} max err {best[1]:.3e}; exact shifts {shifts}')
    # the views of the propagated wavefront agree too
    if rm.maxerr(out.field, val) > 1e-12 * (1 + np.max(np.abs(val), initial=0)):
        acc.violation('tilt:field-view', case, '.field differs from the sum of the output Fields')
    if rm.maxerr(out.intensity, np.abs(val) ** 2) > 1e-10 * (1 + np.max(np.abs(val), initial=0) ** 2):
        acc.violation('tilt:intensity-view', case, '.intensity differs from |sum of Fields|^2')
    acc.cls('rep:' + cfg['rep'])
    acc.cls(sq)
    acc.cls('beyond-output' if big else 'inside-output')
    if evaluated.any():
        acc.cls('nonempty')
    acc.case(case, nontrivial=bool(evaluated.any()), outcome=f'{cfg["rep"]}-{sq}-{"big" if big else "in"}-{int(evaluated.any())}')


def chk_shift(case, acc, seed):
    """Field.shift reports the displacement z*angle/du*oversample with the documented signs and axes."""
    import lentil
    from lentil.field import Field
    tx, ty, os_ = case['tx'], case['ty'], case['os']
    du = tuple(case['du']) if np.ndim(case['du']) else case['du']
    f = Field(np.ones((2, 2)), tilt=[lentil.Tilt(x=tx, y=ty)])
    got = f.shift(z=case['z'], wavelength=WL, pixelscale=du, oversample=os_, indexing='ij')
    exp = displ_for(tx, ty, du, os_, case['z'])
    if not np.allclose(got, exp, rtol=1e-12, atol=1e-12):
        sq = 'square' if np.ndim(case['du']) == 0 else 'nonsquare-du'
        acc.violation(f'shift:ij:{sq}', case, f'Field.shift(ij) = {tuple(float(g) for g in got)} != (z*tx*os/du_row, -z*ty*os/du_col) = {exp}')
    gx = f.shift(z=case['z'], wavelength=WL, pixelscale=du, oversample=os_, indexing='xy')
    # xy = (cartesian x -> +col, cartesian y -> -row)
    if not np.allclose((-gx[1], gx[0]), exp, rtol=1e-12, atol=1e-12):
        acc.violation('shift:xy', case, f'Field.shift(xy) = {gx} inconsistent with ij {exp}')
    acc.case(case, outcome='shift')


def chk_fit(case, acc, seed):
    """fit_tilt removes exactly the least-squares tip/tilt (not the piston) per segment and records the angles."""
    import lentil
    shape, aperture = tuple(case['pupil']), case['aperture']
    dx = tuple(case['dx']) if np.ndim(case['dx']) else case['dx']
    masks = seg_masks(shape, aperture)
    nseg = masks.shape[0]
    amp = rm.generic_real(shape, seed, tag=11, lo=0.4, hi=1.0) * (masks.sum(0) > 0)
    opd = rm.generic_real(shape, seed, tag=case['payload'], lo=-0.3, hi=0.3) * WL + 0.37 * WL
    if case['payload'] == 0:
        opd = np.full(shape, 0.37 * WL)        # nothing but piston and the ramp below: the fitted angles are exactly the ramp's
    opd = opd + ramp(shape, dx, case['tx'], case['ty'])
    p = lentil.Pupil(amplitude=amp.copy(), opd=opd.copy(), mask=(masks[0] if nseg == 1 else masks).copy(), pixelscale=dx, focal_length=Z)
    opd0 = opd.copy()
    q = p.fit_tilt(inplace=case['inplace'])
    if case['inplace'] and q is not p:
        acc.violation('fit:inplace-returns-copy', case, 'fit_tilt(inplace=True) did not return the plane itself')
    if not case['inplace'] and (q is p or not np.array_equal(p.opd, opd0) or p.tilt):
        acc.violation('fit:copy-mutates-original', case, 'fit_tilt() modified the original plane')
    if len(q.tilt) not in (0, nseg):
        acc.violation('fit:tilt-count', case, f'{len(q.tilt)} tilt records for {nseg} segments')
        acc.case(case, outcome='fit-bad')
        return
    scale = np.max(np.abs(opd0))

    class _Zero:           # no record at all is read as "no tilt removed" and judged by the same equations
        x = 0.0
        y = 0.0
    for k in range(nseg):
        t = ls_tilt(opd0, masks[k], dx)
        sel = masks[k] != 0
        exp_after = opd0 - ramp(shape, dx, t[1], t[2])
        if rm.maxerr(q.opd[sel], exp_after[sel]) > 1e-9 * scale:
            # did it also remove the piston?
            pist = 'piston-removed' if rm.maxerr(q.opd[sel], (exp_after - t[0])[sel]) <= 1e-9 * scale else 'residual'
            acc.violation(f'fit:{pist}', dict(case, segment=k), f'OPD after fit_tilt differs from opd - LS tilt by {rm.maxerr(q.opd[sel], exp_after[sel]):.3e}')
        T = q.tilt[k] if q.tilt else _Zero
        # recorded angles: Tilt(x=tx, y=ty) stores .y = tx, .x = ty
        if not np.allclose((T.y, T.x), (t[1], t[2]), rtol=1e-7, atol=1e-9 * scale / (max(shape) * min(op.pair(dx))) * 1e-3):
            acc.violation('fit:recorded-angles', dict(case, segment=k), f'recorded ({T.y}, {T.x}) != least squares ({t[1]}, {t[2]})')
        # OPD plus recorded tilt unchanged
        back = q.opd + ramp(shape, dx, T.y, T.x)
        if rm.maxerr(back[sel], opd0[sel]) > 1e-9 * scale:
            acc.violation('fit:opd-plus-tilt', dict(case, segment=k), f'opd_after + recorded ramp != opd_before (max {rm.maxerr(back[sel], opd0[sel]):.3e})')
    acc.cls('fit')
    acc.case(case, outcome=f'fit-{aperture}')


# ---- tilt elements: orderings (E2) -----------------------------------------------------------------------
ELEMS = {
    'tiltA': ('tilt', (2.0e-6, -1.0e-6)),
    'tiltB': ('tilt', (-0.5e-6, 3.0e-6)),
    'disp1': ('disp', ([0.5, 1e-6], [2.0 ** -10, WL - 2.0 ** -10 * 3e-5])),                  # 1st order trace & dispersion
    'disp2t': ('disp', ([4000.0, 0.3, 0.0], [2.0 ** -10, WL - 2.0 ** -10 * 2e-5])),            # 2nd order trace
    'disp2t_neg': ('disp', ([4000.0, 0.3, 0.0], [2.0 ** -10, WL + 2.0 ** -10 * 2e-5])),       # 2nd order trace, negative distance along it
    'disp2d': ('disp', ([-0.25, 0.0], [0.5, 2.0 ** -10, WL - (0.5 * (1e-5) ** 2 + 2.0 ** -10 * 1e-5)])),   # 2nd order dispersion
}


def make_elem(name):
    import lentil
    kind, arg = ELEMS[name]
    if kind == 'tilt':
        return lentil.Tilt(x=arg[0], y=arg[1])
    return lentil.DispersiveTilt(trace=list(arg[0]), dispersion=list(arg[1]))


def gauss_arclen(trace, x, n=24):
    """arc length of y = polyval(trace, .) from 0 to x by Gauss-Legendre (independent of scipy.integrate.quad)"""
    nodes, weights = np.polynomial.legendre.leggauss(n)
    t = 0.5 * x * (nodes + 1)
    dy = np.polyval(np.polyder(trace), t)
    return 0.5 * x * np.sum(weights * np.sqrt(1 + dy ** 2))


def elem_displacement(name, z):
    """independent model of one element's focal-plane displacement (x, y) in metres; also checks the defining relations"""
    kind, arg = ELEMS[name]
    if kind == 'tilt':
        tx, ty = arg
        return (-z * ty, -z * tx)      # cartesian: +x tilt moves the image to -y (i.e. +row), +y tilt to -x (i.e. -col)
    trace, disp = np.asarray(arg[0], float), np.asarray(arg[1], float)
    # d: root of polyval(disp, d) = WL nearest 0
    roots = np.roots(np.concatenate([disp[:-1], [disp[-1] - WL]]))
    roots = roots[np.abs(roots.imag) < 1e-12].real
    d = roots[np.argmin(np.abs(roots))]
    # x: arclen(trace, 0, x) = d by bisection on a monotone function
    lo, hi = (0.0, d) if d >= 0 else (d, 0.0)
    f = lambda x: gauss_arclen(trace, x) - d
    a, b = lo, hi
    fa, fb = f(a), f(b)
    for _ in range(200):
        mid = 0.5 * (a + b)
        fm = f(mid)
        if (fm > 0) == (fb > 0):
            b, fb = mid, fm
        else:
            a, fa = mid, fm
    x = 0.5 * (a + b)
    return (x, float(np.polyval(trace, x)))


def chk_disp_reuse(case, acc, seed):
    """one dispersive element instance asked for several wavelengths (a broadband loop): each answer must be the one a fresh
    element gives for that wavelength"""
    name = case['elem']
    el = make_elem(name)
    wls = [WL, WL * (1 + 2.0 ** -11), WL + 0.3e-9, WL - 0.45e-9, WL, WL * 1.25, WL + 0.3e-9]
    for k, wl in enumerate(wls):
        try:
            got = el.shift(wavelength=wl, xs=0.0, ys=0.0)
            fresh = make_elem(name).shift(wavelength=wl, xs=0.0, ys=0.0)
        except Exception as e:
            acc.violation(f'disp:{name}:reuse:raises:{type(e).__name__}', dict(case, step=k), repr(e))
            break
        g = (float(np.ravel(got[0])[0]), float(np.ravel(got[1])[0])); f = (float(np.ravel(fresh[0])[0]), float(np.ravel(fresh[1])[0]))
        if not np.allclose(g, f, rtol=1e-9, atol=1e-15):
            acc.violation(f'disp:{name}:depends-on-earlier-wavelengths', dict(case, step=k),
                          f'displacement at {wl} m from a re-used element {g} differs from a fresh element {f}')
            break
        acc.transitions += 1
    acc.cls('disp-reuse')
    acc.case(case, outcome='disp-reuse')


def chk_order(case, acc, seed):
    import lentil
    names = case['elems']
    z = Z
    du = op.DU2
    os_ = 2
    shape = (4, 5)
    amp = rm.generic_real(shape, seed, tag=21, lo=0.4, hi=1.0)
    opd = rm.generic_real(shape, seed, tag=22, lo=-0.2, hi=0.2) * WL
    w = lentil.Wavefront(WL) * lentil.Pupil(amplitude=amp.copy(), opd=opd.copy(), pixelscale=op.DX, focal_length=z)
    try:
        made = {}
        for n in names:
            if case.get('same_object'):
                # double pass: the SAME element object met again (one object per name), not an equal copy
                if n not in made:
                    made[n] = make_elem(n)
                w = w * made[n]
            else:
                w = w * make_elem(n)
        got = [tuple(float(np.ravel(v)[0]) if np.size(v) == 1 else v for v in
                     f.shift(z=z, wavelength=WL, pixelscale=du, oversample=os_, indexing='xy')) for f in w.data]
    except Exception as e:
        acc.violation(f'order:raises:{type(e).__name__}', case, repr(e))
        acc.case(case, outcome='raise')
        return
    exp_xy = np.sum([elem_displacement(n, z) for n in names], axis=0) if names else np.zeros(2)
    exp = (exp_xy[0] / du[1] * os_, exp_xy[1] / du[0] * os_)
    for g in got:
        if not np.allclose(g, exp, rtol=1e-6, atol=1e-6):
            which = '+'.join(sorted(set(ELEMS[n][0] for n in names)))
            acc.violation(f'order:sum:{which}', case, f'total displacement (xy, samples) {g} != sum of individual displacements {exp}')
    # each dispersive element alone satisfies its defining relations
    for n in names:
        if ELEMS[n][0] == 'disp':
            el = make_elem(n)
            try:
                x, y = el.shift(wavelength=WL, xs=0.0, ys=0.0)
                x, y = float(np.ravel(x)[0]), float(np.ravel(y)[0])
            except Exception as e:
                acc.violation(f'disp:{n}:raises:{type(e).__name__}', case, repr(e))
                continue
            trace, disp = np.asarray(ELEMS[n][1][0], float), np.asarray(ELEMS[n][1][1], float)
            if abs(y - np.polyval(trace, x)) > 1e-9 * (abs(y) + 1e-6):
                acc.violation(f'disp:{n}:off-trace', case, f'y={y} != trace(x)={np.polyval(trace, x)}')
            dlen = gauss_arclen(trace, x)
            if abs(np.polyval(disp, dlen) - WL) > 1e-6 * WL:
                acc.violation(f'disp:{n}:arc-length', case, f'dispersion(arclen)={np.polyval(disp, dlen)} != wavelength {WL}')
    # propagating the element chain == propagating one angular Tilt with the same total displacement
    try:
        out = lentil.propagate_dft(w, du, shape=(6, 6), oversample=os_)
        eq = lentil.Wavefront(WL) * lentil.Pupil(amplitude=amp.copy(), opd=opd.copy(), pixelscale=op.DX, focal_length=z) * \
            lentil.Tilt(x=-exp_xy[1] / z, y=-exp_xy[0] / z)
        out2 = lentil.propagate_dft(eq, du, shape=(6, 6), oversample=os_)
        v1, c1, _ = op.render(out)
        v2, c2, _ = op.render(out2)
        both = (c1 > 0) & (c2 > 0)
        if both.any() and rm.maxerr(v1[both], v2[both]) > 1e-5 * (1 + np.max(np.abs(v2))):
            acc.violation('order:propagate-vs-equivalent-tilt', case,
                          f'field differs from the equivalent angular tilt by {rm.maxerr(v1[both], v2[both]):.3e}')
        acc.cls('propagated')
    except Exception as e:
        which = '+'.join(sorted(set(n for n in names if ELEMS[n][0] == 'disp'))) or 'tilt'
        acc.violation(f'order:propagate-raises:{type(e).__name__}:{which}', case, repr(e))
    acc.cls('orderings')
    acc.case(case, outcome='order-%d' % len(names))


# ---- histories: fit -> more tilt -> fit (E2) -----------------------------------------------------------------
HEV = ['fit', 'fit_inplace', 'add_a', 'add_b', 'add_bump', 'set_total']


def chk_hist(case, acc, seed):
    import lentil
    aperture = case['aperture']
    shape = (5, 4)
    dx = op.DX
    du, os_ = op.DU2, 2
    masks = seg_masks(shape, aperture)
    nseg = masks.shape[0]
    amp = rm.generic_real(shape, seed, tag=31, lo=0.4, hi=1.0) * (masks.sum(0) > 0)
    base = rm.generic_real(shape, seed, tag=32, lo=-0.2, hi=0.2) * WL
    ta = angles_for((1.5, -0.75), du, os_)
    tb = angles_for((-2.25, 0.5), du, os_)
    bump = rm.generic_real(shape, seed, tag=33, lo=-0.1, hi=0.1) * WL
    p = lentil.Pupil(amplitude=amp.copy(), opd=base.copy(), mask=(masks[0] if nseg == 1 else masks).copy(), pixelscale=dx, focal_length=Z)
    total = base.copy()                      # model: everything ever put into the plane, as OPD
    alpha = op.alpha_exact(dx, du, WL, Z, os_)
    shape_o = (6, 6)
    shape_out = (12, 12)
    for i, ev in enumerate(case['events']):
        if ev == 'fit':
            p = p.fit_tilt()
        elif ev == 'fit_inplace':
            p.fit_tilt(inplace=True)
        elif ev in ('add_a', 'add_b', 'add_bump'):
            add = ramp(shape, dx, *ta) if ev == 'add_a' else (ramp(shape, dx, *tb) if ev == 'add_b' else bump)
            p.opd = p.opd + add
            total = total + add
        elif ev == 'set_total':
            # caller overwrites the OPD with the full current OPD: recorded tilt must then not be applied on top
            p.opd = total.copy()
            p.tilt = []
        sub = dict(case, upto=i)
        # invariant: OPD + recorded ramps == total on every segment's mask
        for k in range(nseg):
            sel = masks[k] != 0
            rec = p.opd.copy()
            tl = p.tilt[k::nseg] if p.tilt else []
            for T in tl:
                rec = rec + ramp(shape, dx, T.y, T.x)
            if rm.maxerr(rec[sel], total[sel]) > 1e-9 * WL:
                acc.violation('hist:opd-plus-recorded-tilt', sub, f'after {case["events"][:i + 1]}: opd + recorded tilt differs from the total OPD by {rm.maxerr(rec[sel], total[sel]):.3e} m')
        # invariant: the plane propagates like a single plane carrying the total OPD
        try:
            w = lentil.Wavefront(WL) * p
            out = lentil.propagate_dft(w, du, shape=shape_o, oversample=os_)
            val, cnt, _ = op.render(out)
        except Exception as e:
            acc.violation(f'hist:raises:{type(e).__name__}', sub, repr(e))
            break
        exp = np.zeros(shape_out, dtype=complex)
        ok_region = np.ones(shape_out, dtype=bool)
        for k in range(nseg):
            ref = op.RefPlane(op.phasor(amp, total, WL, masks[k]), alpha, 8).on_grid(shape_out)
            exp += ref
        # compare where every segment was evaluated (cnt == number of segments)
        region = cnt == nseg
        if region.any():
            err = rm.maxerr(val[region], exp[region])
            if err > 1e-8 * (1 + np.sum(np.abs(amp))):
                nfit = sum(e.startswith('fit') for e in case['events'][:i + 1])
                acc.violation(f'hist:propagate:{"refit" if nfit > 1 else "single-fit"}', sub,
                              f'after {case["events"][:i + 1]} the plane does not propagate like one plane with the total OPD (max err {err:.3e})')
                break
            acc.cls('hist-compared')
        acc.transitions += 1
    acc.states += 1
    acc.cls('histories')
    acc.case(case, outcome='hist')


DISPATCH = {'dispreuse': chk_disp_reuse, 'rep': chk_rep, 'shift': chk_shift, 'fit': chk_fit, 'order': chk_order, 'hist': chk_hist}


DISPATCH['histop'] = histories.chk_case

def t_rep(arg, acc):
    tier, seed = arg['tier'], arg['seed']
    pupil, aperture, rep = tuple(arg['pupil']), arg['aperture'], arg['rep']
    for dxi, dui in ((0, 0), (0, 1), (1, 1)):
        dx = [op.DX, op.DX2][dxi]
        du = [op.DU, op.DU2][dui]
        for os_ in (1, 2, 3):
            for shape in ((4, 4), (5, 5), (4, 5)):
                for pshape in (None, (3, 2)):
                    for mask in (False, True):
                        if mask and pshape is not None and tier == 'quick':
                            continue
                        for displ in DISPL:
                            for perseg in ((False, True) if (aperture == 'seg2' and rep in ('opd', 'fit', 'tilt_after', 'fit_then_tilt')) else (False,)):
                                acc.transitions += 1
                                cfg = dict(pupil=pupil, aperture=aperture, rep=rep, dx=dx, du=du, os=os_, shape=shape,
                                           prop_shape=pshape, mask=mask, displ=displ, per_segment=perseg)
                                chk_rep({'kind': 'rep', 'cfg': cfg}, acc, seed)
                acc.states += 1


def t_misc(arg, acc):
    tier, seed = arg['tier'], arg['seed']
    what = arg['what']
    if what == 'shift':
        for name in ELEMS:
            if ELEMS[name][0] == 'disp':
                chk_disp_reuse({'kind': 'dispreuse', 'elem': name}, acc, seed)
        for du in (op.DU, op.DU2, (op.DU2[1], op.DU2[0])):
            for os_ in (1, 2, 3):
                for z in (1.0, 2.5):
                    for tx, ty in [(1e-6, 0), (0, 1e-6), (-2e-6, 3e-6), (5e-5, -1e-7)]:
                        acc.transitions += 1
                        chk_shift({'kind': 'shift', 'du': du, 'os': os_, 'z': z, 'tx': tx, 'ty': ty}, acc, seed)
    elif what == 'fit':
        for pupil in pupil_shapes(tier) + [(6, 5)]:
            for aperture in ('mono', 'seg2', 'seg3', 'seg4'):
                if aperture in ('seg3', 'seg4') and min(pupil) < 4:
                    continue
                for dx in (op.DX, op.DX2):
                    for payload in (0, 41, 42, 43):
                        for tx, ty in [(0, 0), (3e-5, 0), (0, -2e-5), (1e-5, 4e-5), (7e-9, -4e-9), (3e-12, 0)]:
                            for inplace in (False, True):
                                acc.transitions += 1
                                chk_fit({'kind': 'fit', 'pupil': pupil, 'aperture': aperture, 'dx': dx, 'payload': payload,
                                         'tx': tx, 'ty': ty, 'inplace': inplace}, acc, seed)
    elif what == 'order':
        maxk = 3 if tier == 'quick' else 4
        names = list(ELEMS)
        first = arg.get('first')
        for k in range(0, maxk + 1):
            for sub in itertools.combinations(names, k):
                for perm in itertools.permutations(sub):
                    if (perm[0] if perm else names[0]) != first:
                        continue
                    acc.transitions += 1
                    chk_order({'kind': 'order', 'elems': list(perm)}, acc, seed)
        # repeated elements (multisets)
        for b in names:
            chk_order({'kind': 'order', 'elems': [first, b, first]}, acc, seed)
            chk_order({'kind': 'order', 'elems': [first, b, first], 'same_object': True}, acc, seed)
            chk_order({'kind': 'order', 'elems': [first, first, b, b], 'same_object': True}, acc, seed)
        acc.cls('order:same-object')
    elif what == 'hist':
        depth = 3 if tier == 'quick' else 4
        for aperture in ('mono', 'seg2'):
            for L in range(1, depth + 1):
                for evs in itertools.product(HEV, repeat=L):
                    if arg['first'] != evs[0]:
                        continue
                    chk_hist({'kind': 'hist', 'aperture': aperture, 'events': list(evs)}, acc, seed)


def run(tier, seed, acc, procs=None):
    tasks = []
    for pupil in pupil_shapes(tier):
        for aperture in ('mono', 'seg2'):
            for rep in REPS:
                tasks.append(('t_rep', {'tier': tier, 'seed': seed, 'pupil': pupil, 'aperture': aperture, 'rep': rep}))
    for what in ('shift', 'fit'):
        tasks.append(('t_misc', {'tier': tier, 'seed': seed, 'what': what}))
    for first in ELEMS:
        tasks.append(('t_misc', {'tier': tier, 'seed': seed, 'what': 'order', 'first': first}))
    for first in HEV:
        tasks.append(('t_misc', {'tier': tier, 'seed': seed, 'what': 'hist', 'first': first}))
    acc.states += 1
    acc.transitions += len(tasks)
    tasks += histories.tasks_for(PID, seed)        # pairwise call histories over the operations this property is anchored in
    engine.run_parallel(MOD, tasks, acc, procs)
    return {
        'rule': 'five tilt representations (OPD ramp, Tilt plane after/before the pupil, Wavefront(tilt=), fit_tilt) x pupil x '
                'aperture (monolithic, two segments, per-segment tilts) x input/output pixel scales (square, per-axis) x oversample '
                '1..3 x output shape x prop window x mask x 10 displacements (zero, sub-pixel, 1.6, 4, beyond the output; both signs; '
                'mixed); fit_tilt against an independent least squares; every permutation of every subset (<= 3/4) of 5 tilt '
                'elements (2 angular, 3 dispersive incl. 2nd-order trace and dispersion); every history (<= 3/4) of '
                '{fit, fit in place, add tilt a/b, add bump, overwrite} on one plane.',
        'bounds': {'pupils': pupil_shapes(tier), 'displacements': DISPL, 'representations': REPS, 'elements': list(ELEMS),
                   'history_events': HEV, 'history_depth': 3 if tier == 'quick' else 4},
        'assumptions': ['reference = Fraunhofer sum of the field with all tilt written into the OPD (exact rational phase)',
                        'the window may be displaced by any integer vector within one sample of the exact shift (no rounding policy)',
                        'dispersive displacements: tolerance 1e-6 relative (the numeric root finder own accuracy)'],
        'require': {'rep:split': 100, 'rep:fit_then_tilt': 100, 'rep:fit_plane_behind': 100, 'rep:fit_plane_front': 100, 'rep:opd': 100, 'rep:fit': 100, 'rep:tilt_after': 100, 'rep:wavefront': 100, 'nonsquare-du': 500, 'square': 500,
                    'beyond-output': 100, 'nonempty': 1000, 'fit': 100, 'orderings': 50, 'histories': 100, 'order:same-object': 5},
    }


def replay(case, acc):
    if case.get('kind') == 'histop':
        import os as _os
        return histories.chk_case(case, acc, int(_os.environ.get('VERIF_SEED', '0') or 0))
    seed = int(os.environ.get('VERIF_SEED', '0') or 0)
    DISPATCH[case['kind']](case, acc, seed)
