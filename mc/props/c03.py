"""C03 -- splitting an aperture into segments or sub-arrays never changes the result."""
import itertools
import os

import numpy as np

from .. import engine, optics as op, refmodel as rm
from .. import histories
from ..histories import t_callhist, t_cross      # worker tasks of the history harness (mc/histories.py)

PID = 'C03'
MOD = 'mc.props.c03'
WL, Z, DX = op.WL, 1.0, op.DX

SUPPORTS = {
    'thorough': {'shape': (5, 6), 'sets': {
        'bar': [(1, 0), (1, 1), (1, 2), (1, 3), (1, 4), (1, 5), (2, 5)],
        'L': [(0, 1), (1, 1), (2, 1), (3, 1), (4, 1), (4, 2), (4, 3)],
        'plus': [(1, 2), (0, 2), (2, 2), (1, 1), (1, 3), (3, 2), (1, 4)],
        'blobs': [(0, 0), (0, 1), (1, 0), (4, 4), (4, 5), (3, 5), (3, 4)]}, 'kmax': 4},
}
SUPPORTS['quick'] = dict(SUPPORTS['thorough'], kmax=3)
CHAINS = ['one', 'two_mono', 'two_seg', 'tilt_chain', 'blocktilt', 'signed', 'flood', 'scalar_amp']
PROPS = [dict(shape=(5, 5), prop_shape=None, oversample=2), dict(shape=(6, 5), prop_shape=(3, 4), oversample=1),
         dict(shape=(7, 7), prop_shape=(2, 2), oversample=1)]


def partitions(n, kmax):
    """all set partitions of range(n) into <= kmax blocks (restricted growth strings)"""
    out = []

    def rec(i, rgs, nb):
        if i == n:
            out.append(list(rgs))
            return
        for b in range(min(nb + 1, kmax)):
            rgs.append(b)
            rec(i + 1, rgs, max(nb, b + 1))
            rgs.pop()

    rec(0, [], 0)
    return out


def arrays(tier, name, seed):
    cfg = SUPPORTS[tier]
    shape = cfg['shape']
    pix = cfg['sets'][name]
    union = np.zeros(shape)
    for p in pix:
        union[p] = 1
    amp = rm.generic_real(shape, seed, tag=51, lo=0.4, hi=1.0) * union
    rr, cc = np.meshgrid(np.arange(shape[0]) - shape[0] // 2, np.arange(shape[1]) - shape[1] // 2, indexing='ij')
    # smooth global OPD + per-pixel generic part (acts as per-segment piston) + a little tilt (fraction of a sample)
    opd = (0.04 * rr * rr - 0.03 * rr * cc + 0.05 * cc) * WL + rm.generic_real(shape, seed, tag=52, lo=-0.1, hi=0.1) * WL
    opd = opd + (0.35 * rr - 0.2 * cc) * WL / 8
    return shape, pix, union, amp, opd


def seg_mask(shape, pix, rgs):
    nb = max(rgs) + 1
    m = np.zeros((nb,) + tuple(shape))
    for p, b in zip(pix, rgs):
        m[b][p] = 1
    return m


def build_chain(tier, cfg, seed, segmented):
    """-> wavefront after the plane chain (before propagation)"""
    import lentil
    shape, pix, union, amp, opd = arrays(tier, cfg['support'], seed)
    rgs = cfg['rgs']
    mask = seg_mask(shape, pix, rgs) if segmented and max(rgs) > 0 else union
    if cfg['chain'] == 'blocktilt':
        # every block carries its own tilt, displacing its image chip by [1, 0, 2, 3][block] samples: with the 2x2 propagation
        # window of PROPS[2] the chips overlap as a chain whose centre chip is listed first
        rr = np.arange(shape[0])[:, None] - shape[0] // 2
        full = seg_mask(shape, pix, rgs)
        for k in range(full.shape[0]):
            opd = opd + full[k] * ([1, 0, 2, 3][k] * op.DU / Z) * rr * DX
    if cfg['chain'] == 'flood':
        # flood illumination: the amplitude array is non-zero everywhere, only the mask defines the aperture
        amp = rm.generic_real(shape, seed, tag=51, lo=0.4, hi=1.0)
    if cfg['chain'] == 'signed':
        # amplitude transmission with sign flips (a pi phase step written into the amplitude); the monolithic description
        # lets the plane derive its mask from the amplitude
        flips = np.where((np.arange(shape[0])[:, None] + 2 * np.arange(shape[1])[None, :]) % 3 == 0, -1.0, 1.0)
        amp = amp * flips
        if not (segmented and max(rgs) > 0):
            mask = None
    if cfg['chain'] == 'scalar_amp':
        # uniform transmission given as a number: the mask (one global mask or the partition) alone defines the aperture
        p1 = lentil.Pupil(amplitude=0.7, opd=opd.copy(), mask=np.array(mask, copy=True), pixelscale=DX, focal_length=Z)
    else:
        p1 = lentil.Pupil(amplitude=amp.copy(), opd=opd.copy(), mask=None if mask is None else np.array(mask, copy=True), pixelscale=DX, focal_length=Z)
    if cfg['chain'] == 'rescaled':
        p1 = p1.rescale(2)             # a plane with a history: built, resampled, then used
    if cfg['fit']:
        p1 = p1.fit_tilt()
    if cfg['chain'] == 'tilt_chain':
        # the wavefront arrives with tilt metadata, passes the (segmented) pupil and then one more Tilt plane:
        # every Field must carry each tilt exactly once, however the aperture is split
        t1 = (0.9 * op.DU / Z, -0.6 * op.DU / Z)
        t2 = (-1.7 * op.DU / Z, 1.2 * op.DU / Z)
        return lentil.Wavefront(WL, tilt=list(t1)) * p1 * lentil.Tilt(x=t2[0], y=t2[1])
    w = lentil.Wavefront(WL) * p1
    if cfg['chain'] not in ('one', 'blocktilt', 'rescaled', 'signed', 'flood', 'scalar_amp'):
        amp2 = rm.generic_real(shape, seed, tag=53, lo=0.5, hi=1.0)
        opd2 = rm.generic_real(shape, seed, tag=54, lo=-0.1, hi=0.1) * WL
        # second aperture: everything except the first support pixel and one extra corner
        m2 = np.ones(shape); m2[pix[0]] = 0; m2[-1, 0] = 0
        if cfg['chain'] == 'two_seg' and segmented:
            # split the second aperture differently: by column parity (every block has >= 2 pixels)
            mm = np.zeros((2,) + tuple(shape))
            for r in range(shape[0]):
                for c in range(shape[1]):
                    if m2[r, c]:
                        mm[c % 2, r, c] = 1
            m2 = mm
        p2 = lentil.Pupil(amplitude=(amp2 * (m2 if m2.ndim == 2 else m2.sum(0))).copy(), opd=opd2.copy(), mask=m2.copy(),
                          pixelscale=DX, focal_length=Z)
        w = w * p2
    return w


def model_field(tier, cfg, seed, drop_singletons=False):
    shape, pix, union, amp, opd = arrays(tier, cfg['support'], seed)
    if cfg['chain'] == 'signed':
        flips = np.where((np.arange(shape[0])[:, None] + 2 * np.arange(shape[1])[None, :]) % 3 == 0, -1.0, 1.0)
        amp = amp * flips
    if cfg['chain'] == 'flood':
        amp = rm.generic_real(shape, seed, tag=51, lo=0.4, hi=1.0)
    if cfg['chain'] == 'scalar_amp':
        amp = np.full(shape, 0.7)
    f = op.phasor(amp, opd, WL, union)
    if drop_singletons:
        rgs = cfg['rgs']
        for b in set(rgs):
            members = [p for p, bb in zip(pix, rgs) if bb == b]
            if len(members) == 1 and tuple(members[0]) != (shape[0] // 2, shape[1] // 2) and max(rgs) > 0:
                f[members[0]] = 0
    if cfg['chain'] not in ('one', 'tilt_chain', 'blocktilt', 'rescaled', 'signed', 'flood', 'scalar_amp'):
        amp2 = rm.generic_real(shape, seed, tag=53, lo=0.5, hi=1.0)
        opd2 = rm.generic_real(shape, seed, tag=54, lo=-0.1, hi=0.1) * WL
        m2 = np.ones(shape); m2[pix[0]] = 0; m2[-1, 0] = 0
        f = f * op.phasor(amp2, opd2, WL, m2)
    return f


def has_offcentre_singleton(tier, cfg):
    shape = SUPPORTS[tier]['shape']
    pix = SUPPORTS[tier]['sets'][cfg['support']]
    rgs = cfg['rgs']
    if max(rgs) == 0:
        return False
    for b in set(rgs):
        members = [p for p, bb in zip(pix, rgs) if bb == b]
        if len(members) == 1 and tuple(members[0]) != (shape[0] // 2, shape[1] // 2):
            return True
    return False


def chk_chain(case, acc, seed):
    import lentil
    tier, cfg = case['tier'], case['cfg']
    single = has_offcentre_singleton(tier, cfg)
    try:
        wseg = build_chain(tier, cfg, seed, True)
        wmono = build_chain(tier, cfg, seed, False)
    except Exception as e:
        acc.violation(f'segmented:build-raises:{type(e).__name__}', case, repr(e))
        acc.case(case, outcome='raise')
        return
    nblocks = max(cfg['rgs']) + 1
    # overlap structure of the partition (non-vacuity)
    shape = SUPPORTS[tier]['shape']
    pix = SUPPORTS[tier]['sets'][cfg['support']]
    boxes = []
    for b in range(nblocks):
        mem = [p for p, bb in zip(pix, cfg['rgs']) if bb == b]
        boxes.append((min(p[0] for p in mem), max(p[0] for p in mem), min(p[1] for p in mem), max(p[1] for p in mem)))
    ovl = any(a[0] <= b[1] and a[1] >= b[0] and a[2] <= b[3] and a[3] >= b[2] for a, b in itertools.combinations(boxes, 2))
    acc.cls('boxes-overlap' if ovl else ('single-block' if nblocks == 1 else 'boxes-disjoint'))
    fmod = model_field(tier, cfg, seed)
    tol = 1e-10 * (1 + np.sum(np.abs(fmod)))
    kn = 'single-pixel-segment' if single else 'general'

    def report(key, msg, got_field=None, stage='pupil-plane'):
        if single and got_field is not None:
            # does the deviation equal exactly "the one-pixel segments were dropped"?
            fdrop = model_field(tier, cfg, seed, drop_singletons=True)
            if stage == 'pupil-plane' and rm.maxerr(got_field, fdrop) <= tol:
                acc.violation('segmented:single-pixel-segment-dropped', case,
                              'a segment consisting of one off-centre pixel is lost (one-element Field convention): ' + msg)
                return
        acc.violation(key, case, msg)

    # 1. before propagation: same field on the pupil plane
    fs, fm = wseg.field, wmono.field
    bad_pupil = False
    if cfg['chain'] == 'rescaled':
        if rm.maxerr(fs, fm) > 1e-9 * (1 + np.max(np.abs(fm))):
            bad_pupil = True
            report(f'segmented:pupil-field:rescaled', f'after rescale(2) the segmented and the monolithic plane give different pupil-plane fields (max diff {rm.maxerr(fs, fm):.3e})', None)
    elif cfg['fit']:
        # fitted tilt is carried as metadata: the pupil-plane arrays legitimately differ; compared after propagation only.
        # a dropped one-pixel segment is still visible as missing support
        if single and np.count_nonzero(fs) < np.count_nonzero(fmod):
            bad_pupil = True
            acc.violation('segmented:single-pixel-segment-dropped', case,
                          'a segment consisting of one off-centre pixel is lost (one-element Field convention)')
    elif rm.maxerr(fs, fm) > tol or rm.maxerr(fm, fmod) > tol:
        bad_pupil = True
        report(f'segmented:pupil-field:{cfg["chain"]}', f'pupil-plane field: |seg - mono| = {rm.maxerr(fs, fm):.3e}, |mono - model| = {rm.maxerr(fm, fmod):.3e}', fs)
    for w, nm in ((wseg, 'segmented'), (wmono, 'monolithic')):
        if rm.maxerr(w.intensity, np.abs(w.field) ** 2) > tol:
            acc.violation(f'{nm}:pupil-intensity', case, 'intensity != |field|^2 on the pupil plane')
    # 2. after propagation
    for k, pk in enumerate(PROPS):
        du = op.DU2 if k == 1 else op.DU
        try:
            os_ = lentil.propagate_dft(wseg, du, **pk)
            om = lentil.propagate_dft(wmono, du, **pk)
            vs, cs, _ = op.render(os_)
            vm, cm, _ = op.render(om)
        except Exception as e:
            acc.violation(f'segmented:propagate-raises:{type(e).__name__}', dict(case, prop=k), repr(e))
            continue
        if rm.maxerr(os_.intensity, np.abs(os_.field) ** 2) > tol:
            acc.violation('segmented:incoherent-sum', dict(case, prop=k),
                          f'intensity != |field|^2 after propagation: max diff {rm.maxerr(os_.intensity, np.abs(os_.field) ** 2):.3e} '
                          '(contributions of different segments must add as complex amplitudes)')
        if bad_pupil:
            continue
        if cfg['fit'] or cfg['chain'] == 'tilt_chain':
            # (tilted windows differ per Field: compared where every Field of each OUTPUT wavefront was evaluated)
            # fit: every segment has its own tilt, so a segment whose window falls off the output is "not evaluated" there: count
            # against the number of segments; tilt_chain: all Fields share one displacement: count against the output's own Fields
            if cfg['fit']:
                region = (cs == len(wseg.data)) & (cm == len(wmono.data))
            else:
                region = (cs == max(len(os_.data), 1)) & (cm == max(len(om.data), 1))
        else:
            region = np.ones(vs.shape, dtype=bool)
            if not np.array_equal(cs > 0, cm > 0):
                acc.violation('segmented:window', dict(case, prop=k), 'evaluated samples differ between segmented and monolithic description')
        if region.any():
            acc.cls('compared')
            if rm.maxerr(vs[region], vm[region]) > tol:
                acc.violation(f'segmented:field:{cfg["chain"]}:{"fit" if cfg["fit"] else "nofit"}', dict(case, prop=k),
                              f'propagated field differs between segmented and monolithic description by {rm.maxerr(vs[region], vm[region]):.3e}')
            Is, Im = os_.intensity, om.intensity
            if rm.maxerr(Is[region], Im[region]) > tol * (1 + np.max(np.abs(vm))):
                acc.violation(f'segmented:intensity:{cfg["chain"]}:{"fit" if cfg["fit"] else "nofit"}', dict(case, prop=k),
                              f'intensity differs between segmented and monolithic description by {rm.maxerr(Is[region], Im[region]):.3e}')
            if not cfg['fit'] and cfg['chain'] not in ('tilt_chain', 'rescaled'):
                shape_out = (pk['shape'][0] * pk['oversample'], pk['shape'][1] * pk['oversample'])
                alpha = op.alpha_exact(DX, du, WL, Z, pk['oversample'])
                ref = op.RefPlane(fmod, alpha, max(shape_out) // 2 + 2).on_grid(shape_out)
                win = cs > 0
                if rm.maxerr(vs[win], ref[win]) > tol * 10:
                    acc.violation('segmented:vs-reference', dict(case, prop=k), f'differs from the reference Fraunhofer sum by {rm.maxerr(vs[win], ref[win]):.3e}')
    acc.cls('blocks=%d' % nblocks)
    acc.case(case, nontrivial=nblocks > 1, outcome=f'{cfg["chain"]}-{nblocks}-{int(ovl)}-{kn}')


def chk_subarray(case, acc, seed):
    """cropped sub-arrays + offsets fed to dft2 / Field: the asserted version of test_propagate_slice_multi"""
    import lentil
    import lentil.helper as lh
    from lentil.field import Field
    tier, cfg = case['tier'], case['cfg']
    shape, pix, union, amp, opd = arrays(tier, cfg['support'], seed)
    f = op.phasor(amp, opd, WL, union)
    masks = seg_mask(shape, pix, cfg['rgs'])
    alpha = (0.125, 0.0625 * 3)
    oshape = (6, 7)
    whole = lentil.fourier.dft2(f, alpha, shape=oshape, shift=(0.5, -1.25))
    tot = np.zeros(oshape, dtype=complex)
    fields = []
    for m in masks:
        s = lh.boundary_slice(m)
        off = lh.slice_offset(s, shape)
        # independent expectation for the slice offset: centre index of the crop minus centre index of the array
        r0, r1 = np.where(m.any(1))[0][[0, -1]]
        c0, c1 = np.where(m.any(0))[0][[0, -1]]
        exp_off = (r0 + (r1 - r0 + 1) // 2 - shape[0] // 2, c0 + (c1 - c0 + 1) // 2 - shape[1] // 2)
        if tuple(int(o) for o in off) != tuple(int(o) for o in exp_off):
            acc.violation('subarray:slice_offset', case, f'slice_offset={off} != {exp_off}')
        sub = (f * m)[s]
        tot += lentil.fourier.dft2(sub, alpha, shape=oshape, shift=(0.5, -1.25), offset=off)
        fields.append(Field(sub, offset=list(off)))
    tol = 1e-10 * (1 + np.sum(np.abs(f)))
    if rm.maxerr(tot, whole) > tol:
        acc.violation('subarray:dft2-offset', case, f'sum of sub-array transforms differs from the whole-array transform by {rm.maxerr(tot, whole):.3e}')
    ref = rm.dft2(f, alpha, shape=oshape, shift=(0.5, -1.25))
    if rm.maxerr(whole, ref) > tol:
        acc.violation('subarray:whole-vs-reference', case, f'{rm.maxerr(whole, ref):.3e}')
    # the cropped Fields re-assemble the whole array
    canvas = np.zeros(shape, dtype=complex)
    for fl in fields:
        canvas = lentil.field.insert(fl, canvas)
    if rm.maxerr(canvas, f) > 1e-12:
        acc.violation('subarray:field-reassembly', case, 'cropped Fields with their offsets do not re-assemble the array')
    acc.cls('subarray')
    acc.case(case, outcome='subarray')


DISPATCH = {'chain': chk_chain, 'subarray': chk_subarray}


DISPATCH['histop'] = histories.chk_case

def t_support(arg, acc):
    tier, seed, name = arg['tier'], arg['seed'], arg['support']
    n = len(SUPPORTS[tier]['sets'][name])
    parts = partitions(n, SUPPORTS[tier]['kmax'])
    parts = parts[arg['lo']:arg['hi']]
    for rgs in parts:
        acc.states += 1
        for chain in CHAINS:
            for fit in ((True,) if chain == 'blocktilt' else (False, True)):
                acc.transitions += 1
                chk_chain({'kind': 'chain', 'tier': tier, 'cfg': {'support': name, 'rgs': rgs, 'chain': chain, 'fit': fit}}, acc, seed)
        acc.transitions += 1
        chk_subarray({'kind': 'subarray', 'tier': tier, 'cfg': {'support': name, 'rgs': rgs}}, acc, seed)


def run(tier, seed, acc, procs=None):
    tasks = []
    for name in SUPPORTS[tier]['sets']:
        n = len(SUPPORTS[tier]['sets'][name])
        total = len(partitions(n, SUPPORTS[tier]['kmax']))
        step = 12 if tier == 'quick' else 24
        for lo in range(0, total, step):
            tasks.append(('t_support', {'tier': tier, 'seed': seed, 'support': name, 'lo': lo, 'hi': min(lo + step, total)}))
    acc.states += 1
    acc.transitions += len(tasks)
    tasks += histories.tasks_for(PID, seed)        # pairwise call histories over the operations this property is anchored in
    engine.run_parallel(MOD, tasks, acc, procs)
    n = len(next(iter(SUPPORTS[tier]['sets'].values())))
    return {
        'rule': f'every set partition of each {n}-pixel support (bar, L, plus, two blobs) into <= {SUPPORTS[tier]["kmax"]} '
                'blocks (incl. interleaved segments whose bounding boxes overlap or coincide) x 3 plane chains (one pupil; two '
                'pupils; two pupils both segmented, partitioned differently) x {no fit, fit_tilt} x 2 propagation settings, '
                'compared with the monolithic description and the reference sum; plus the sub-array/offset sub-tree through '
                'dft2(offset=) and Field.  Non-trivial: more than one block.',
        'bounds': {'supports': list(SUPPORTS[tier]['sets']), 'pixels': n, 'max_blocks': SUPPORTS[tier]['kmax'],
                   'partitions_per_support': len(partitions(n, SUPPORTS[tier]['kmax'])), 'array': SUPPORTS[tier]['shape']},
        'assumptions': ['with fit_tilt the two descriptions are compared on samples every output Field evaluates',
                        'a deviation that equals exactly "one-pixel off-centre segments dropped" is the recorded known finding'],
        'require': {'boxes-overlap': 50, 'boxes-disjoint': 5, 'compared': 200, 'subarray': 100},
    }


def replay(case, acc):
    if case.get('kind') == 'histop':
        import os as _os
        return histories.chk_case(case, acc, int(_os.environ.get('VERIF_SEED', '0') or 0))
    seed = int(os.environ.get('VERIF_SEED', '0') or 0)
    DISPATCH[case['kind']](case, acc, seed)
