"""C16 -- detector chain: right quantum efficiency at every pixel, exact digitisation."""
import itertools
import math
import os
import warnings
from fractions import Fraction as Fr

import numpy as np

from .. import engine, refmodel as rm
from .. import histories
from ..histories import t_callhist, t_cross      # worker tasks of the history harness (mc/histories.py)

PID = 'C16'
MOD = 'mc.props.c16'

WAVES_NM = [450.0, 550.0, 650.0]
TO_NM = {'nm': 1.0, 'um': 1e3, 'm': 1e9, 'angstrom': 0.1}


def qe_vector(tag):
    return {'r': [0.1, 0.3, 0.8], 'g': [0.2, 0.9, 0.25], 'b': [0.7, 0.15, 0.05], 'q': [0.5, 0.75, 0.25]}[tag]


def chk_collect(case, acc, seed):
    import lentil
    from lentil.radiometry import Spectrum
    nw, shape = case['nw'], tuple(case['shape'])
    waves = WAVES_NM[:nw]
    qv = qe_vector('q')[:nw]
    cubes = []
    for k in range(nw * shape[0] * shape[1]):
        e = np.zeros(nw * shape[0] * shape[1]); e[k] = 1
        cubes.append(('e%d' % k, e.reshape((nw,) + shape)))
    cubes.append(('dense', rm.generic_real((nw,) + shape, seed, tag=1, lo=0, hi=50)))
    counts = np.floor(rm.generic_real((nw,) + shape, seed, tag=2, lo=1, hi=60))
    cubes.append(('counts-int64', counts.astype(np.int64)))          # photon counts held in integer arrays
    cubes.append(('counts-uint16', counts.astype(np.uint16)))
    cubes.append(('counts-float32', counts.astype(np.float32)))
    for name, img in cubes:
        sub = dict(case, payload=name)
        exp = sum(img[i] * qv[i] for i in range(nw))
        img0 = img.copy()
        # vector efficiency
        got = lentil.detector.collect_charge(img, waves, qv)
        if rm.maxerr(got, exp) > 1e-12:
            acc.violation('collect:vector', sub, f'collect_charge differs from sum_i photons_i * qe_i by {rm.maxerr(got, exp):.3e}')
        # scalar efficiency
        got = lentil.detector.collect_charge(img, waves, 0.5)
        if rm.maxerr(got, 0.5 * img.sum(0)) > 1e-12:
            acc.violation('collect:scalar', sub, 'scalar efficiency differs from qe * sum of slices')
        # 2-D image with one wavelength
        if nw == 1:
            got = lentil.detector.collect_charge(img[0], waves, qv)
            if rm.maxerr(got, exp) > 1e-12:
                acc.violation('collect:2d-image', sub, '2-D image handled differently from a one-slice cube')
        # spectrum efficiency in any unit, sampled at wavelengths given in any unit
        if name in ('dense', 'e0', 'counts-int64'):
            for su in TO_NM:
                for wu in TO_NM:
                    grid_nm = np.array([400.0, 450.0, 500.0, 550.0, 600.0, 650.0, 700.0])
                    vals = np.interp(grid_nm, waves + [700.0] if nw < 3 else waves, (qv + [0.1]) if nw < 3 else qv)
                    # exact at the sample wavelengths: build the spectrum through the requested points
                    vals = np.array([qv[waves.index(g)] if g in waves else 0.33 for g in grid_nm])
                    s = Spectrum(grid_nm / TO_NM[su], vals, waveunit=su)
                    w_in = np.array(waves) / TO_NM[wu]
                    try:
                        got = lentil.detector.collect_charge(img, w_in, s, waveunit=wu)
                    except Exception as e:
                        acc.violation(f'collect:spectrum:raises:{type(e).__name__}', dict(sub, spectrum_unit=su, waveunit=wu), repr(e))
                        continue
                    if rm.maxerr(got, exp) > 1e-9 * (1 + np.max(np.abs(exp))):
                        acc.violation(f'collect:spectrum:{"same-unit" if su == wu else "mixed-unit"}', dict(sub, spectrum_unit=su, waveunit=wu),
                                      f'spectrum efficiency (spectrum in {su}, wavelengths in {wu}) differs from the vector form by {rm.maxerr(got, exp):.3e}')
                    acc.transitions += 1
                    # the same Spectrum object, edited, then used again: the efficiency in force is the edited one
                    if su == wu or (su, wu) in (('nm', 'um'), ('um', 'm')):
                        for edit in ('value', 'inplace', 'crop'):
                            s = Spectrum(grid_nm / TO_NM[su], vals.copy(), waveunit=su)
                            try:
                                lentil.detector.collect_charge(img, w_in, s, waveunit=wu)
                                if edit == 'value':
                                    s.value = np.asarray(s.value) * 0.5
                                    exp2 = exp * 0.5
                                elif edit == 'inplace':
                                    s.value[...] = np.asarray(s.value) * 0.25
                                    exp2 = exp * 0.25
                                else:
                                    lo = 500.0 * (s.wave[0] / 400.0)          # 500 nm in the unit the spectrum is held in now
                                    s.crop(lo, s.wave[-1] * 2)
                                    exp2 = sum(img[i] * (qv[i] if waves[i] >= 500.0 else 0.0) for i in range(nw))
                                got2 = lentil.detector.collect_charge(img, w_in, s, waveunit=wu)
                            except Exception as e:
                                acc.violation(f'collect:spectrum-edited:raises:{type(e).__name__}', dict(sub, spectrum_unit=su, waveunit=wu, edit=edit), repr(e))
                                continue
                            if rm.maxerr(got2, exp2) > 1e-9 * (1 + np.max(np.abs(exp))):
                                acc.violation('collect:spectrum-edited', dict(sub, spectrum_unit=su, waveunit=wu, edit=edit),
                                              f'after editing the efficiency Spectrum ({edit}) collect_charge is off the edited efficiency by {rm.maxerr(got2, exp2):.3e}')
                            acc.cls('collect:edited-spectrum')
        if not np.array_equal(img, img0):
            acc.violation('collect:input-mutated', sub, 'photon cube modified')
    acc.cls('collect')
    acc.case(case, outcome='collect')


def chk_bayer(case, acc, seed):
    import lentil
    pat, k, tiles, os_, flatten = case['pattern'], case['k'], tuple(case['tiles']), case['os'], case['flatten']
    nw = 2
    waves = WAVES_NM[:nw]
    shape = (k * tiles[0] * os_, k * tiles[1] * os_)
    img = rm.generic_real((nw,) + shape, seed, tag=7, lo=1, hi=9)
    qe = {'R': qe_vector('r')[:nw], 'G': qe_vector('g')[:nw], 'B': qe_vector('b')[:nw]}
    P = [pat[i * k:(i + 1) * k] for i in range(k)]
    exp_ch = {c: np.zeros(shape) for c in 'RGB'}
    for i in range(shape[0]):
        for j in range(shape[1]):
            c = P[(i // os_) % k][(j // os_) % k].upper()
            exp_ch[c][i, j] = sum(img[w, i, j] * qe[c][w] for w in range(nw))
    exp = exp_ch['R'] + exp_ch['G'] + exp_ch['B']
    try:
        got = lentil.detector.collect_charge_bayer(img, waves, qe['R'], qe['G'], qe['B'], pat, oversample=os_, flatten=flatten)
    except Exception as e:
        acc.violation(f'bayer:raises:{type(e).__name__}:oversample={os_}', case, repr(e))
        acc.case(case, outcome='raise')
        return
    osk = f'oversample={os_ if os_ < 3 else ">=3"}'
    if flatten:
        if np.asarray(got).shape != exp.shape:
            acc.violation(f'bayer:shape:{osk}', case, f'result shape {np.asarray(got).shape} != image shape {exp.shape}')
        elif rm.maxerr(np.asarray(got), exp) > 1e-12:
            bad = np.argwhere(np.abs(np.asarray(got) - exp) > 1e-12)[0]
            acc.violation(f'bayer:wrong-colour:{osk}', case,
                          f'sub-pixel {tuple(bad)} does not use the efficiency of colour {P[(bad[0] // os_) % k][(bad[1] // os_) % k]} '
                          f'(pattern {pat}, oversample {os_})')
    else:
        if len(got) != 3:
            acc.violation('bayer:channels', case, f'{len(got)} channel images')
        else:
            for c, g in zip('RGB', got):
                if rm.maxerr(np.asarray(g), exp_ch[c]) > 1e-12:
                    acc.violation(f'bayer:channel:{osk}', dict(case, channel=c), f'channel {c} image wrong')
                    break
            if rm.maxerr(sum(np.asarray(g) for g in got), exp) > 1e-12:
                acc.violation(f'bayer:channels-sum:{osk}', case, 'channel images do not sum to the flattened image')
    # a single-wavelength 2-D frame is a one-slice cube
    if flatten and tiles == (1, 2) and os_ <= 2:
        try:
            g2 = np.asarray(lentil.detector.collect_charge_bayer(img[0], waves[:1], qe['R'][:1], qe['G'][:1], qe['B'][:1], pat, oversample=os_))
            g3 = np.asarray(lentil.detector.collect_charge_bayer(img[:1], waves[:1], qe['R'][:1], qe['G'][:1], qe['B'][:1], pat, oversample=os_))
            if g2.shape != shape or rm.maxerr(g2, g3) > 1e-12:
                acc.violation('bayer:2d-image', case, f'a 2-D frame ({g2.shape}) is handled differently from the one-slice cube ({g3.shape})')
        except Exception as e:
            acc.violation(f'bayer:2d-image:raises:{type(e).__name__}', case, repr(e))
        acc.cls('bayer:2d')
    # efficiencies given as Spectrum objects that share one wavelength array, sampled at wavelengths given in another unit
    if case.get('spectra'):
        from lentil.radiometry import Spectrum
        grid = np.array([400.0, 450.0, 550.0, 650.0, 700.0])
        grid0 = grid.copy()

        def curve(c):
            return np.array([0.33 if g not in waves else qe[c][waves.index(g)] for g in grid0])
        sp = {c: Spectrum(grid, curve(c), waveunit='nm') for c in 'RGB'}
        w_um = np.array(waves) / 1e3
        for rep in (1, 2):
            try:
                g2 = lentil.detector.collect_charge_bayer(img, w_um, sp['R'], sp['G'], sp['B'], pat, oversample=os_, waveunit='um', flatten=True)
            except Exception as e:
                acc.violation(f'bayer:spectra:raises:{type(e).__name__}', dict(case, call=rep), repr(e))
                break
            if np.asarray(g2).shape != exp.shape or rm.maxerr(np.asarray(g2), exp) > 1e-9:
                acc.violation('bayer:spectrum-qe-shared-grid', dict(case, call=rep),
                              f'call {rep}: efficiencies given as spectra (shared nm grid, wavelengths in um) differ from the vector form by {rm.maxerr(np.asarray(g2), exp):.3e}')
                break
        if not np.array_equal(grid, grid0):
            acc.violation('bayer:caller-wavelength-array-modified', case, "the wavelength array the caller built the spectra from was modified")
        acc.cls('bayer:spectra')
    # equal efficiencies in every channel reproduce the monochrome result
    q = qe_vector('q')[:nw]
    mono = lentil.detector.collect_charge(img, waves, q)
    same = lentil.detector.collect_charge_bayer(img, waves, q, q, q, pat.lower(), oversample=os_)
    if rm.maxerr(np.asarray(same), mono) > 1e-12:
        acc.violation(f'bayer:equal-qe-not-monochrome:{osk}', case, 'equal efficiencies in all channels differ from collect_charge')
    acc.cls(f'bayer:k={k}')
    acc.cls(f'bayer:os={os_}')
    acc.case(case, nontrivial=len(set(pat.upper())) > 1, outcome=f'k{k}-os{os_}-{flatten}')


# ---- adc ---------------------------------------------------------------------------------------------------
FRAME = [[-3.0, 0.0, 0.5, 1.25], [7.0, 99.5, 100.0, 100.5], [101.0, 250.0, -30.0, 64.0]]
# a frame whose maximum equals the capacity exactly (nothing above it)
FRAME_EQ = [[-3.0, 0.0, 0.5, 1.25], [7.0, 99.5, 100.0, 100.0], [100.0, 25.0, -30.0, 64.0]]
GAINS = {
    'scalar': 0.5,
    'scalar1': 1.0,
    'poly1': [1.75],
    'poly2': [2.0 ** -6, 0.5],
    'poly3': [2.0 ** -12, 2.0 ** -7, 0.25],
    'poly2neg': [-2.0 ** -6, 1.5],
    'poly2big': [1.0, 0.5],
    'scalarneg': -0.5,
    'poly2zero': [2.0 ** -6, 0.0],               # 2^-6 e^2: the linear coefficient is exactly zero
    'poly3mid0': [2.0 ** -12, 0.0, 0.25],
    'polylead0': [0.0, 0.5],
    'poly3zz': [2.0 ** -12, 0.0, 0.0],
    'pixel': 'pixel',
    'pixelpoly': 'pixelpoly',
}


def gain_value(name, shape):
    g = GAINS[name]
    if g == 'pixel':
        return 0.25 * (1 + (np.arange(shape[0] * shape[1]).reshape(shape) % 5))
    if g == 'pixelpoly':
        a = 2.0 ** -8 * (1 + (np.arange(shape[0] * shape[1]).reshape(shape) % 3))
        b = 0.25 * (1 + (np.arange(shape[0] * shape[1]).reshape(shape) % 4))
        return np.stack([a, b])
    return g


def adc_model(e, gain, cap):
    """exact: max(0, floor(sum_k g_k * min(e, cap)^p)), highest power first, no constant term"""
    e = Fr(e)
    if cap:
        e = min(e, Fr(cap))
    g = [Fr(x) for x in np.ravel(gain)]
    n = len(g)
    val = sum(gk * e ** (n - i) for i, gk in enumerate(g))
    return max(0, math.floor(val))


def chk_adc(case, acc, seed):
    import lentil
    gname, cap, dt, warn, fdt = case['gain'], case['cap'], case['dtype'], case['warn'], case['frame_dtype']
    frame = np.array(FRAME_EQ if case.get('frame') == 'max==capacity' else FRAME, dtype=float)
    if case.get('frame') == 'one-row':
        frame = frame.reshape(1, -1)[:, :7]         # a frame with a single row: per-pixel gains have a singleton axis
    elif case.get('frame') == 'one-col':
        frame = frame.reshape(-1, 1)[:7, :]
    elif case.get('frame') == 'one-pixel':
        frame = frame[1:2, 1:2]
    if fdt == 'int':
        frame = np.floor(frame).astype(np.int64)
    shape = frame.shape
    gain = gain_value(gname, shape)
    dtype = {None: None, 'int': int, 'uint16': np.uint16, 'float32': np.float32}[dt]
    f0 = frame.copy()
    with warnings.catch_warnings(record=True) as wlist:
        warnings.simplefilter('always')
        try:
            got = lentil.detector.adc(frame, gain, saturation_capacity=cap, warn_saturate=warn, dtype=dtype)
        except Exception as e:
            acc.violation(f'adc:raises:{type(e).__name__}', case, repr(e))
            acc.case(case, outcome='raise')
            return
    sat_warn = [w for w in wlist if 'saturated' in str(w.message).lower()]
    # exact expectation
    exp = np.zeros(shape)
    for i in range(shape[0]):
        for j in range(shape[1]):
            g = gain
            if np.ndim(gain) == 2:
                g = [gain[i, j]]
            elif np.ndim(gain) == 3:
                g = gain[:, i, j]
            exp[i, j] = adc_model(f0[i, j], g, cap)
    form = {0: 'scalar', 1: 'polynomial', 2: 'per-pixel', 3: 'per-pixel-polynomial'}[np.ndim(gain)]
    if got.shape != shape or not np.array_equal(np.asarray(got, dtype=float), exp):
        bad = np.argwhere(np.asarray(got, dtype=float) != exp)
        b = tuple(bad[0]) if len(bad) else None
        why = 'saturation' if (b is not None and cap and f0[b] > cap) else ('negative' if (b is not None and f0[b] < 0) else 'value')
        acc.violation(f'adc:{form}:{why}', case,
                      f'pixel {b}: electrons {f0[b] if b else None} -> DN {np.asarray(got)[b] if b else None}, expected {exp[b] if b else None} '
                      f'(floor of the gain polynomial at the clipped count, never negative)')
    if np.any(np.asarray(got, dtype=float) < 0):
        acc.violation('adc:negative-output', case, 'negative DN')
    want_dt = np.dtype(dtype) if dtype is not None else np.dtype(float)
    if np.asarray(got).dtype != want_dt:
        acc.violation('adc:dtype', case, f'output dtype {np.asarray(got).dtype}, requested {want_dt}')
    over = bool(cap) and bool(np.any(f0 > cap))
    if warn and over and not sat_warn:
        acc.violation('adc:warning-missing', case, 'a pixel exceeds the saturation capacity but no warning was issued')
    if sat_warn and not (warn and over):
        acc.violation('adc:warning-spurious', case, 'saturation warning although no pixel exceeds capacity / warnings not requested')
    if not np.array_equal(frame, f0) or frame.dtype != f0.dtype:
        acc.violation('adc:input-mutated', case, f'the caller\'s electron frame was modified (max change {np.max(np.abs(frame.astype(float) - f0.astype(float)))})')
    acc.cls('adc:' + form)
    acc.case(case, outcome=f'{form}-{cap}-{dt}')


def chk_adc_monotone(case, acc, seed):
    """non-decreasing in the input for increasing non-negative gain curves"""
    import lentil
    gname, cap = case['gain'], case['cap']
    xs = np.array(sorted(set([0, 0.25, 0.5, 1, 1.5, 2, 3, 7, 50, 99.5, 100, 100.25, 100.5, 101, 150, 250, 1000.75])), dtype=float)
    frame = xs.reshape(1, -1)
    gain = GAINS[gname]
    got = np.asarray(lentil.detector.adc(frame.copy(), gain, saturation_capacity=cap), dtype=float).ravel()
    if np.any(np.diff(got) < 0):
        k = int(np.argmax(np.diff(got) < 0))
        acc.violation('adc:not-monotone', case, f'DN({xs[k]}) = {got[k]} > DN({xs[k + 1]}) = {got[k + 1]}')
    exp = np.array([adc_model(x, np.ravel(gain), cap) for x in xs], dtype=float)
    if not np.array_equal(got, exp):
        acc.violation('adc:polynomial:value', case, f'{got} != {exp}')
    acc.cls('adc:monotone')
    acc.case(case, outcome='mono')


def chk_adc_bad(case, acc, seed):
    import lentil
    try:
        lentil.detector.adc(np.ones((2, 2)), np.ones((1, 2, 2, 2)))
        acc.violation('adc:bad-gain-accepted', case, '4-D gain accepted')
    except ValueError:
        pass
    except Exception as e:
        acc.violation('adc:bad-gain-wrong-exception', case, repr(e))
    acc.case(case, outcome='bad')


def chk_big(case, acc, seed):
    """detector-sized inputs: the same per-pixel laws (vectorised reference)"""
    import lentil
    rng = np.random.default_rng(77 + seed)
    if case['what'] == 'collect':
        nw, shape = case['nw'], tuple(case['shape'])
        img = rng.random((nw,) + shape) * 40
        qv = np.linspace(0.2, 0.9, nw)
        waves = np.linspace(450., 650., nw)
        exp = np.tensordot(qv, img, axes=(0, 0))
        for name, qe in (('vector', qv), ('scalar', 0.5)):
            try:
                got = np.asarray(lentil.detector.collect_charge(img, waves, qe))
            except Exception as e:
                acc.violation(f'collect:big:raises:{type(e).__name__}', dict(case, qe=name), repr(e))
                continue
            want = exp if name == 'vector' else 0.5 * img.sum(0)
            if got.shape != want.shape or rm.maxerr(got, want) > 1e-9:
                acc.violation(f'collect:big:{name}', dict(case, qe=name), f'result shape {got.shape} (want {want.shape}), max error {rm.maxerr(got, want) if got.shape == want.shape else "n/a"}')
    else:
        pat, os_, shape = case['pattern'], case['os'], tuple(case['shape'])
        k = int(round(len(pat) ** 0.5))
        img = rng.random((2,) + shape) * 9 + 1
        qe = {'R': np.array([0.1, 0.3]), 'G': np.array([0.2, 0.9]), 'B': np.array([0.7, 0.15])}
        rr, cc = np.indices(shape)
        P = np.array([list(pat[i * k:(i + 1) * k]) for i in range(k)])
        colour = P[(rr // os_) % k, (cc // os_) % k]
        exp = np.zeros(shape)
        for c in 'RGB':
            exp += np.where(colour == c, np.tensordot(qe[c], img, axes=(0, 0)), 0.0)
        try:
            got = np.asarray(lentil.detector.collect_charge_bayer(img, [450., 650.], qe['R'], qe['G'], qe['B'], pat, oversample=os_))
        except Exception as e:
            acc.violation(f'bayer:big:raises:{type(e).__name__}', case, repr(e))
            return
        if got.shape != exp.shape or rm.maxerr(got, exp) > 1e-9:
            bad = np.argwhere(np.abs(got - exp) > 1e-9) if got.shape == exp.shape else []
            acc.violation('bayer:big:wrong-colour', case, f'{len(bad)} sub-pixels of a {shape} frame use the wrong efficiency (first at row {bad[0][0] if len(bad) else "?"})')
    acc.cls('big-frames')
    acc.case(case, outcome='big')


DISPATCH = {'big': chk_big, 'collect': chk_collect, 'bayer': chk_bayer, 'adc': chk_adc, 'adcmono': chk_adc_monotone, 'adcbad': chk_adc_bad}


DISPATCH['histop'] = histories.chk_case

def patterns(k, tier):
    pats = [''.join(p) for p in itertools.product('RGB', repeat=k * k)]
    if k == 3 and tier == 'quick':
        pats = pats[::13]
    return pats


def t_bayer(arg, acc):
    tier, seed, k = arg['tier'], arg['seed'], arg['k']
    osmax = 4 if tier == 'quick' else 6
    pats = patterns(k, tier)[arg['shard']::arg['nshard']]
    for pat in pats:
        acc.states += 1
        for tiles in ((1, 1), (1, 2), (2, 1), (2, 2)):
            for os_ in range(1, osmax + 1):
                for flatten in (True, False):
                    acc.transitions += 1
                    chk_bayer({'kind': 'bayer', 'pattern': pat, 'k': k, 'tiles': tiles, 'os': os_, 'flatten': flatten,
                               'spectra': (flatten and tiles == (1, 2) and os_ <= 2)}, acc, seed)


def t_other(arg, acc):
    seed = arg['seed']
    if arg['what'] == 'collect':
        chk_big({'kind': 'big', 'what': 'collect', 'nw': 5, 'shape': (1200, 800)}, acc, seed)
        chk_big({'kind': 'big', 'what': 'collect', 'nw': 3, 'shape': (700, 2100)}, acc, seed)
        for pat, os_, shape in (('RGGB', 3, (1026, 18)), ('RGGB', 5, (1030, 20)), ('RGBGBRBRG', 1, (1026, 9)), ('GRBG', 2, (1028, 8)), ('RGGB', 3, (12, 1026))):
            chk_big({'kind': 'big', 'what': 'bayer', 'pattern': pat, 'os': os_, 'shape': shape}, acc, seed)
        for nw in (1, 2, 3):
            for shape in ((1, 1), (2, 2), (2, 3)):
                acc.transitions += 1
                chk_collect({'kind': 'collect', 'nw': nw, 'shape': shape}, acc, seed)
    else:
        for gname in GAINS:
            for cap in (None, 100, 100.5):
                for dt in (None, 'int', 'uint16', 'float32'):
                    for warn in (False, True):
                        for fdt in ('float', 'int'):
                            acc.transitions += 1
                            chk_adc({'kind': 'adc', 'gain': gname, 'cap': cap, 'dtype': dt, 'warn': warn, 'frame_dtype': fdt}, acc, seed)
                            if cap == 100:
                                chk_adc({'kind': 'adc', 'gain': gname, 'cap': cap, 'dtype': dt, 'warn': warn, 'frame_dtype': fdt,
                                         'frame': 'max==capacity'}, acc, seed)
                                if dt in (None, 'int') and not warn:
                                    for fr in ('one-row', 'one-col', 'one-pixel'):
                                        chk_adc({'kind': 'adc', 'gain': gname, 'cap': cap, 'dtype': dt, 'warn': warn, 'frame_dtype': fdt, 'frame': fr}, acc, seed)
                                        acc.cls('adc:singleton-axis')
        for gname in ('scalar', 'scalar1', 'poly1', 'poly2', 'poly3'):
            for cap in (None, 100, 100.5):
                chk_adc_monotone({'kind': 'adcmono', 'gain': gname, 'cap': cap}, acc, seed)
        chk_adc_bad({'kind': 'adcbad'}, acc, seed)


def run(tier, seed, acc, procs=None):
    tasks = [('t_other', {'seed': seed, 'what': 'collect'}), ('t_other', {'seed': seed, 'what': 'adc'})]
    for k in (1, 2, 3):
        ns = 1 if k == 1 else (6 if k == 2 else 12)
        for sh in range(ns):
            tasks.append(('t_bayer', {'tier': tier, 'seed': seed, 'k': k, 'shard': sh, 'nshard': ns}))
    acc.states += 1
    acc.transitions += len(tasks)
    tasks += histories.tasks_for(PID, seed)        # pairwise call histories over the operations this property is anchored in
    engine.run_parallel(MOD, tasks, acc, procs)
    return {
        'rule': 'collect_charge: cubes of 1-3 slices, every unit impulse and a dense payload, scalar / vector / Spectrum efficiency in '
                '4 units x wavelengths given in 4 units; Bayer: every square pattern over {R,G,B} of size 1 and 2 (84) and a strided (quick) / '
                'complete (thorough) set of the 19683 3x3 patterns x image sizes of 1x1..2x2 tiles x oversample 1..4/6 x flatten; adc: a dyadic frame '
                '(negatives, == and > capacity) x 8 gain forms x capacity {None,100,100.5} x 4 dtypes x warn flag x frame dtype, '
                'against an exact-Fraction model; monotonicity over a sorted input ladder.',
        'bounds': {'oversample_max': 4 if tier == 'quick' else 6, 'patterns_3x3': len(patterns(3, tier)), 'gain_forms': list(GAINS)},
        'assumptions': ['dyadic electron counts and gains: every intermediate is exact in binary floating point',
                        'pattern strings are read row-major'],
        'require': {'bayer:k=2': 1000, 'bayer:k=3': 1000, 'bayer:os=3': 500, 'bayer:os=4': 500, 'adc:polynomial': 50, 'adc:per-pixel': 20,
                    'adc:per-pixel-polynomial': 20, 'adc:scalar': 20, 'collect': 9, 'collect:edited-spectrum': 50, 'adc:singleton-axis': 50, 'bayer:2d': 50, 'big-frames': 7},
    }


def replay(case, acc):
    if case.get('kind') == 'histop':
        import os as _os
        return histories.chk_case(case, acc, int(_os.environ.get('VERIF_SEED', '0') or 0))
    seed = int(os.environ.get('VERIF_SEED', '0') or 0)
    DISPATCH[case['kind']](case, acc, seed)
