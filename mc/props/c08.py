"""C08 -- the plane-type state machine follows the documented table (E3: TLC model + conformance replay)."""
import hashlib
import json
import os

import numpy as np

from .. import engine, optics as op, tlc
from .. import histories
from ..histories import t_callhist, t_cross      # worker tasks of the history harness (mc/histories.py)
from ..engine import LENTIL_SRC

PID = 'C08'
MOD = 'mc.props.c08'
DOCS = os.path.join(LENTIL_SRC, 'docs')
# exported plane classes that the ptype table does not list: ptype inherited from their documented base class
EXTRA = {'Grism': 'tilt', 'LensletArray': 'none'}

_MODEL = {}


def model():
    """Parse docs, generate TLA+, run TLC, read the labelled graph (once per process)."""
    if _MODEL:
        return _MODEL
    mul = tlc.parse_mul_table(DOCS)
    classes = tlc.parse_class_table(DOCS)
    prop = tlc.parse_prop_table(DOCS)
    tla, cfg, acts = tlc.generate(mul, classes, prop, EXTRA)
    dot, (gen, distinct), log = tlc.run_tlc(tla, cfg)
    nodes, edges, init = tlc.read_dot(dot)
    succ = {}
    for s, a, d in edges:
        succ.setdefault(s, {})[a] = d
    _MODEL.update(mul=mul, classes=classes, prop=prop, tla=tla, acts=acts, nodes=nodes, succ=succ, init=sorted(init, key=lambda n: nodes[n]['wf']),
                  tlc_states=(gen, distinct), edges=len(edges))
    cls_ptype = {c: p for p, cs in classes.items() for c in cs}
    cls_ptype.update(EXTRA)
    cls_ptype.update({'TiltAsPupil': 'pupil', 'TiltAsImage': 'image'})
    _MODEL['cls_ptype'] = cls_ptype
    return _MODEL


def model_from(arg):
    """workers get the graph from the master (no second TLC run)"""
    _MODEL.update(arg)
    return _MODEL


A = np.ones((3, 3))


def fresh_wavefront(ptype, empty=False):
    import lentil
    from lentil.field import Field
    w = lentil.Wavefront(op.WL, pixelscale=op.DX, focal_length=1.0, ptype=ptype)
    # empty: a legal wavefront without any Field left (product of non-overlapping apertures, image tilted off the array)
    if empty == 'off':
        # it carries a Field, but one tilted so far that nothing of it lands on any output plane
        w.data = [Field(data=np.ones((3, 3), dtype=complex), tilt=[lentil.Tilt(x=0.05, y=-0.05)])]
    else:
        w.data = [] if empty else [Field(data=np.ones((3, 3), dtype=complex))]
    w.shape = (3, 3)
    return w


def make_plane(action, **kw):
    """kw: extra Plane keyword arguments (pixelscale=... for the refused-cell variant)"""
    import lentil
    import warnings
    kind, name = action.split('_', 1)
    akey = 'amp' if kw.pop('alias', False) else 'amplitude'        # the documented short spelling of the amplitude keyword
    if kw.pop('segmented', False) and (kind == 'Mul' or name in ('Plane', 'Pupil', 'Image')):
        # the same plane with its aperture split into two segments (a 3-D mask): types and refusals do not depend on the mask
        seg = np.zeros((2, 3, 3)); seg[0][:, :2] = 1; seg[1][:, 2:] = 1
        kw['mask'] = seg
    if kind == 'Mul':
        return lentil.Plane(ptype=name, **{akey: A.copy()}, **kw)
    if name == 'Plane':
        return lentil.Plane(**{akey: A.copy()}, **kw)
    if name == 'Pupil':
        return lentil.Pupil(focal_length=2.0, **{akey: A.copy()}, **kw)     # differs from the wavefront's: a refused product must not adopt it
    if name == 'Image':
        return lentil.Image(**{akey: A.copy()}, **kw)
    if name == 'Tilt':
        return lentil.Tilt(x=0.0, y=0.0, **kw)
    if name == 'TiltAsPupil':
        return lentil.Tilt(x=0.0, y=0.0, ptype=lentil.pupil, **kw)
    if name == 'TiltAsImage':
        return lentil.DispersiveTilt(trace=[1.0, 0.0], dispersion=[1.0, op.WL], ptype=lentil.image, **kw)
    if name == 'DispersiveTilt':
        return lentil.DispersiveTilt(trace=[1.0, 0.0], dispersion=[1.0, op.WL], **kw)
    if name == 'Grism':
        with warnings.catch_warnings():
            warnings.simplefilter('ignore')
            return lentil.Grism(trace=[1.0, 0.0], dispersion=[1.0, op.WL], **kw)
    if name == 'Rotate':
        return lentil.Rotate(angle=90)
    if name == 'Flip':
        return lentil.Flip()
    if name == 'LensletArray':
        return lentil.LensletArray(amplitude=A.copy(), **kw)
    raise ValueError(action)


def wdigest(w):
    h = hashlib.blake2b(digest_size=10)
    h.update(repr((str(w.ptype), tuple(w.shape), w.wavelength, w.focal_length,
                   None if w.pixelscale is None else tuple(np.asarray(w.pixelscale).tolist()))).encode())
    for f in w.data:
        h.update(np.round(np.asarray(f.data), 9).tobytes())
        h.update(repr((tuple(np.asarray(f.offset).tolist()), len(f.tilt), np.asarray(f.data).shape)).encode())
    return h.hexdigest()


def pdigest(p):
    h = hashlib.blake2b(digest_size=10)
    for a in (p.amplitude, p.opd, p.mask):
        h.update(np.asarray(a).tobytes())
    h.update(repr((str(p.ptype), len(p.tilt), p.pixelscale)).encode())
    return h.hexdigest()


_REUSED = {}


def plane_for(action, reuse):
    """reuse: one plane object per action for the whole path (the same Tilt meets wavefronts of different types)"""
    if not reuse:
        return make_plane(action)
    if action not in _REUSED:
        _REUSED[action] = make_plane(action, segmented=True, alias=True)      # the reused-object paths are also the segmented-plane paths, built with amp=
    return _REUSED[action]


def apply(w, action, fft=False, reuse=False):
    """-> (new wavefront or None, exception or None, plane)"""
    import lentil
    if action in ('Propagate', 'PropagateFFT'):
        # output sampling chosen so that the transform period stays small: pupil -> image with 2*DU, image -> pupil with DX
        z = w.focal_length if np.isfinite(w.focal_length) else 1.0
        du = op.WL * z / (4 * float(np.broadcast_to(w.pixelscale, (2,))[0]))      # alpha = 1/4 whatever the history
        try:
            if action == 'PropagateFFT':
                return lentil.propagate_fft(w, du, shape=(3, 3), oversample=1), None, None
            return lentil.propagate_dft(w, du, shape=(3, 3), oversample=1), None, None
        except Exception as e:
            return None, e, None
    plane = plane_for(action, reuse)
    try:
        return w * plane, None, plane
    except Exception as e:
        return None, e, plane


def step_check(M, node, w, action, path, acc, fft=False):
    """Execute one model edge on the implementation.  Returns (next node, next wavefront) or None to prune."""
    nxt = M['succ'][node][action]
    exp = M['nodes'][nxt]
    case = {'kind': 'path', 'init': M['nodes'][path['n0']]['wf'], 'actions': path['acts'] + [action], 'fft': fft, 'empty': path.get('empty', False), 'reuse': path.get('reuse', False)}
    before = wdigest(w)
    if action.startswith('Cls_'):
        try:
            pl = make_plane(action)
            want = M['cls_ptype'][action[4:]]
            if str(pl.ptype) != want:
                acc.violation(f'class:{action[4:]}:ptype={pl.ptype}', case,
                              f'{action[4:]} has ptype {pl.ptype}, documented {want}')
        except Exception as e:
            acc.violation(f'class:{action[4:]}:construct:{type(e).__name__}', case, repr(e))
            return None
    out, exc, plane = apply(w, action, fft, path.get('reuse', False))
    pd0 = pdigest(plane) if plane is not None else None
    site = f'cell:{M["nodes"][node]["wf"]}x{plane.ptype}' if (plane is not None and action.startswith('Mul_')) else (
        f'class:{action[4:]}' if action.startswith('Cls_') else f'{action.lower()}:{M["nodes"][node]["wf"]}')
    acc.case(case, outcome=f'{exp["wf"]}/{exp["outcome"]}')
    if action == 'PropagateFFT' and isinstance(exc, NotImplementedError) and any(f.tilt for f in w.data):
        # propagate_fft refuses wavefronts that carry tilt metadata before it looks at the type: C09's statement, not C08's
        acc.cls('fft-refuses-tilt-metadata(C09)')
        if wdigest(w) != before:
            acc.violation(f'{site}:refusal-mutates-wavefront', case, 'refused operation changed the wavefront')
        return None
    if exp['outcome'] == 'TypeError':
        acc.cls('refused-steps')
        if exc is None:
            acc.violation(f'{site}:not-refused', case, f'documented as not allowed, but returned ptype {out.ptype}')
            return None
        if not isinstance(exc, TypeError):
            acc.violation(f'{site}:raises:{type(exc).__name__}', case, f'documented refusal must be TypeError, got {exc!r}')
        if wdigest(w) != before:
            acc.violation(f'{site}:refusal-mutates-wavefront', case, 'refused operation changed the wavefront')
        if plane is not None and pdigest(make_plane(action, segmented=path.get('reuse', False))) != pdigest(plane):
            acc.violation(f'{site}:refusal-mutates-plane', case, 'refused operation changed the plane')
        if plane is not None and action[4:] not in ('Rotate', 'Flip'):
            # the cell is forbidden whatever else is wrong with the operands: a plane whose pixel scale also disagrees
            try:
                w * make_plane(action, pixelscale=(3 * op.DX, 5 * op.DX))
                acc.violation(f'{site}:not-refused', case, 'forbidden cell accepted when the pixel scales differ')
            except TypeError:
                pass
            except Exception as e:
                acc.violation(f'{site}:raises:{type(e).__name__}:pixelscale-mismatch', case,
                              f'documented refusal must be TypeError; with differing pixel scales got {e!r}')
            if wdigest(w) != before:
                acc.violation(f'{site}:refusal-mutates-wavefront', case, 'refused operation changed the wavefront')
        return nxt, w
    acc.cls('allowed-steps')
    if exc is not None:
        acc.violation(f'{site}:raises:{type(exc).__name__}', case,
                      f'documented result {exp["wf"]}, but raised {exc!r}')
        return None
    if str(out.ptype) != exp['wf']:
        acc.violation(f'{site}:result={out.ptype}', case, f'documented result ptype {exp["wf"]}, got {out.ptype}')
        return None
    if wdigest(w) != before:
        acc.violation(f'{site}:mutates-wavefront', case, 'operation changed its input wavefront')
    return nxt, out


def explore(M, n0, first, depth, acc, fft=False, empty=False, reuse=False):
    """All model paths of length <= depth that start with `first` from initial node n0 are replayed.
    De-duplicated on (model node, implementation digest, remaining depth)."""
    memo = {}

    def rec(node, w, acts, remaining):
        key = (node, wdigest(w))
        if memo.get(key, -1) >= remaining:
            acc.cls('dedup-hits')
            return
        memo[key] = remaining
        acc.states += 1
        if remaining == 0:
            return
        for action in sorted(M['succ'][node]):
            acc.transitions += 1
            r = step_check(M, node, w, action, {'n0': n0, 'acts': acts, 'empty': empty, 'reuse': reuse}, acc, fft)
            if r is None:
                acc.cls('pruned-after-violation')
                continue
            rec(r[0], r[1], acts + [action], remaining - 1)

    w0 = fresh_wavefront(M['nodes'][n0]['wf'], empty=empty)
    acc.transitions += 1
    r = step_check(M, n0, w0, first, {'n0': n0, 'acts': [], 'empty': empty, 'reuse': reuse}, acc, fft)
    if r is not None:
        rec(r[0], r[1], [first], depth - 1)


def t_paths(arg, acc):
    M = model_from(arg['model'])
    _REUSED.clear()
    explore(M, arg['n0'], arg['first'], arg['depth'], acc, arg.get('fft', False), arg.get('empty', False), arg.get('reuse', False))


def run(tier, seed, acc, procs=None):
    try:
        M = model()
    except Exception as e:
        acc.errors.append(f'E3 model construction failed: {e!r}')
        return {}
    depth = 4 if tier == 'quick' else 6
    # the TLC graph must be complete: every node has every action
    for n, s in M['succ'].items():
        if sorted(s) != sorted(M['acts']):
            acc.errors.append(f'TLC graph node {M["nodes"][n]} lacks actions {set(M["acts"]) - set(s)}')
    if sorted(M['nodes'][n]['wf'] for n in M['init']) != ['image', 'none', 'pupil']:
        acc.errors.append(f'unexpected initial states {M["init"]}')
    share = {k: M[k] for k in ('nodes', 'succ', 'acts', 'cls_ptype')}
    tasks = []
    for n0 in M['init']:
        for a in M['acts']:
            tasks.append(('t_paths', {'model': share, 'n0': n0, 'first': a, 'depth': depth}))
            tasks.append(('t_paths', {'model': share, 'n0': n0, 'first': a, 'depth': depth - 1, 'empty': True}))
            tasks.append(('t_paths', {'model': share, 'n0': n0, 'first': a, 'depth': depth - 1, 'reuse': True}))
            tasks.append(('t_paths', {'model': share, 'n0': n0, 'first': a, 'depth': depth - 2, 'empty': 'off'}))
    acc.states += len(M['nodes'])
    acc.transitions += M['edges']
    acc.cls('tlc-distinct-states', M['tlc_states'][1])
    acc.cls('tlc-edges', M['edges'])
    tasks += histories.tasks_for(PID, seed)        # pairwise call histories over the operations this property is anchored in
    engine.run_parallel(MOD, tasks, acc, procs)
    npaths = sum(3 * len(M['acts']) ** d for d in range(1, depth + 1))
    return {
        'rule': 'the three documentation tables are parsed at run time and turned into a TLA+ module; TLC checks the documented '
                "protocol's invariants and dumps the labelled state graph; every action sequence of the model up to the depth bound "
                '(not only counter-examples) is replayed on real lentil objects, de-duplicated on (model node, implementation '
                'digest, remaining depth); after every step the implementation ptype / exception must equal the model.',
        'bounds': {'depth': depth, 'actions': M['acts'], 'model_paths_up_to_depth': npaths, 'tlc_states_generated': M['tlc_states'][0],
                   'tlc_distinct_states': M['tlc_states'][1], 'tlc_edges': M['edges']},
        'assumptions': ['spec = docs/user/fundamentals/{wavefront,planes,diffraction}.rst as found in the tree under test',
                        'Grism and LensletArray are exported but not tabulated: ptype of their documented base class',
                        'paths are pruned after a step whose implementation result is unusable (violation already recorded)'],
        'require': {'allowed-steps': 100, 'refused-steps': 100},
    }


def replay(case, acc):
    if case.get('kind') == 'histop':
        import os as _os
        return histories.chk_case(case, acc, int(_os.environ.get('VERIF_SEED', '0') or 0))
    M = model()
    n0 = [n for n in M['init'] if M['nodes'][n]['wf'] == case['init']][0]
    node = n0
    w = fresh_wavefront(case['init'], empty=case.get('empty', False))
    acts = []
    _REUSED.clear()
    for a in case['actions']:
        r = step_check(M, node, w, a, {'n0': n0, 'acts': acts, 'empty': case.get('empty', False), 'reuse': case.get('reuse', False)}, acc, case.get('fft', False))
        if r is None:
            break
        node, w = r
        acts.append(a)
