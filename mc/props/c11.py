"""C11 -- Zernike modes are the Noll-ordered orthonormal polynomials."""
import math
import os
from fractions import Fraction as Fr

import numpy as np

from .. import engine, refmodel as rm
from .. import histories
from ..histories import t_callhist, t_cross      # worker tasks of the history harness (mc/histories.py)

PID = 'C11'
MOD = 'mc.props.c11'


def noll_table(jmax):
    """independent generator of Noll's ordering: rows n, |m| ascending, even j <-> cosine, odd j <-> sine.
    -> {j: (n, |m|, 'cos'|'sin'|'none')}"""
    out = {}
    j = 1
    n = 0
    while j <= jmax:
        ms = [m for m in range(0, n + 1) if (n - m) % 2 == 0]
        for m in ms:
            if m == 0:
                out[j] = (n, 0, 'none'); j += 1
            else:
                for _ in range(2):
                    out[j] = (n, m, 'cos' if j % 2 == 0 else 'sin'); j += 1
        n += 1
    return {k: v for k, v in out.items() if k <= jmax}


def radial_coeffs(n, m):
    """exact coefficients c_k of rho^(n-2k)"""
    return [(Fr((-1) ** k * math.factorial(n - k),
                math.factorial(k) * math.factorial((n + m) // 2 - k) * math.factorial((n - m) // 2 - k)), n - 2 * k)
            for k in range((n - m) // 2 + 1)]


def radial_exact(n, m, rho_fr):
    return sum(c * rho_fr ** p for c, p in radial_coeffs(n, m))


def chk_index(case, acc, seed):
    import lentil, sys
    lz = sys.modules['lentil.zernike']
    jmax = case['jmax']
    tab = noll_table(jmax)
    seen = {}
    for j in range(1, jmax + 1):
        try:
            m, n = lz.zernike_index(j)
        except Exception as e:
            acc.violation(f'index:raises:{type(e).__name__}', dict(case, j=j), repr(e))
            continue
        en, em, kind = tab[j]
        ok = (n == en and abs(m) == em and (n - abs(m)) % 2 == 0 and abs(m) <= n)
        if ok and em > 0:
            # lentil: m > 0 -> cosine, m < 0 -> sine
            ok = (m > 0) == (kind == 'cos')
        if not ok:
            acc.violation('index:noll-map', dict(case, j=j), f'zernike_index({j}) = (m={m}, n={n}); Noll: n={en}, |m|={em}, {kind}')
        key = (n, m)
        if key in seen:
            acc.violation('index:not-injective', dict(case, j=j), f'j={j} and j={seen[key]} map to the same (n,m)={key}')
        seen[key] = j
        acc.transitions += 1
    # onto: complete rows
    nfull = 0
    while (nfull + 1) * (nfull + 2) // 2 <= jmax:
        nfull += 1
    want = {(n, m) for n in range(nfull) for m in range(-n, n + 1) if (n - abs(m)) % 2 == 0}
    if not want <= set(seen):
        acc.violation('index:not-onto', case, f'missing (n,m): {sorted(want - set(seen))[:5]}')
    for bad in (0, -3):
        try:
            lz.zernike_index(bad)
            acc.violation('index:nonpositive-accepted', dict(case, j=bad), 'j < 1 accepted')
        except ValueError:
            pass
    acc.cls('index', jmax)
    acc.case(case, outcome='index')


def node_grid():
    rhos = [Fr(k, 8) for k in range(0, 9)] + [Fr(1, 3), Fr(5, 7)]
    thetas = [2 * math.pi * k / 11 + 0.1 for k in range(11)]
    RHO = np.array([[float(r)] * len(thetas) for r in rhos])
    THETA = np.array([thetas for _ in rhos])
    return rhos, thetas, RHO, THETA


def chk_values(case, acc, seed):
    import lentil
    j = case['j']
    n, m, kind = noll_table(j)[j]
    rhos, thetas, RHO, THETA = node_grid()
    ones = np.ones(RHO.shape)
    coefs = radial_coeffs(n, m)
    Rex = np.array([[float(radial_exact(n, m, r))] * len(thetas) for r in rhos])
    cond = np.array([[float(sum(abs(c) * r ** p for c, p in coefs))] * len(thetas) for r in rhos])
    if radial_exact(n, m, Fr(1)) != 1:
        acc.errors.append(f'reference radial polynomial R_{n}^{m}(1) != 1')
    for normalize in (True, False):
        norm = (math.sqrt(n + 1) if m == 0 else math.sqrt(2 * (n + 1))) if normalize else 1.0
        if kind == 'none':
            az = np.ones_like(THETA)
        elif kind == 'cos':
            az = np.cos(m * THETA)
        else:
            az = np.sin(m * THETA)
        exp = norm * Rex * az
        try:
            got = np.asarray(lentil.zernike(ones, j, normalize=normalize, rho=RHO, theta=THETA), dtype=float)
        except Exception as e:
            acc.violation(f'value:raises:{type(e).__name__}', dict(case, normalize=normalize), repr(e))
            continue
        tol = 1e-10 + 256 * np.finfo(float).eps * cond * norm
        e_plus = np.abs(got - exp)
        e_minus = np.abs(got + exp)
        ok = np.all(e_plus <= tol) or (kind == 'sin' and np.all(e_minus <= tol))   # sign of the sine modes: either accepted
        if not ok:
            what = 'normalisation' if np.allclose(got * exp.max() , exp * got.max(), atol=1e-8) and got.max() != 0 else 'value'
            acc.violation(f'value:{what}:normalize={normalize}', dict(case, normalize=normalize, n=n, m=m, kind=kind),
                          f'Z_{j} (n={n}, m={m}, {kind}) differs from sqrt-norm * R_n^m(rho) * azimuthal factor by {min(e_plus.max(), e_minus.max()):.3e}')
        if not normalize and np.max(np.abs(got)) > 1 + 1e-9:
            acc.violation('value:unnormalised-bound', dict(case, n=n, m=m), f'|Z| = {np.max(np.abs(got))} > 1')
    # |Z| <= 1 un-normalised on a dense grid; value 1 at rho = 1 for the radial part
    dr = np.linspace(0, 1, 201)[:, None] * np.ones((1, 24))
    dt = np.linspace(0, 2 * np.pi, 24, endpoint=False)[None, :] * np.ones((201, 1))
    dz = np.asarray(lentil.zernike(np.ones(dr.shape), j, normalize=False, rho=dr, theta=dt), dtype=float)
    bound_tol = 1e-9 + 256 * np.finfo(float).eps * float(sum(abs(c) for c, p in coefs))
    if np.max(np.abs(dz)) > 1 + bound_tol:
        acc.violation('value:unnormalised-bound', dict(case, n=n, m=m), f'max |Z_{j}| on a dense grid = {np.max(np.abs(dz))} > 1')
    acc.cls('values')
    acc.case(case, nontrivial=n > 0, outcome=f'{kind}')


def chk_ortho(case, acc, seed):
    """all pairs of modes <= jmax: <Zi Zj>/pi = delta_ij by an exact quadrature"""
    import lentil
    jmax = case['jmax']
    nmax = max(v[0] for v in noll_table(jmax).values())
    NR = nmax + 4                  # Gauss-Legendre exact to degree 2*NR-1 >= 2*nmax+1
    NT = 4 * nmax + 8              # uniform theta nodes exact for trigonometric degree < NT
    x, wgt = np.polynomial.legendre.leggauss(NR)
    rho = 0.5 * (x + 1)
    wr = 0.5 * wgt * rho           # weight rho d rho on [0, 1]
    theta = 2 * np.pi * np.arange(NT) / NT + 0.05
    RHO = rho[:, None] * np.ones((1, NT))
    THETA = np.ones((NR, 1)) * theta[None, :]
    W = (wr[:, None] * np.ones((1, NT))) * (2 * np.pi / NT) / np.pi
    ones = np.ones(RHO.shape)
    Zs = np.array([np.asarray(lentil.zernike(ones, j, rho=RHO, theta=THETA), dtype=float).ravel() for j in range(1, jmax + 1)])
    G = (Zs * W.ravel()[None, :]) @ Zs.T
    if not np.allclose(Zs[0], 1.0, atol=1e-12):
        acc.violation('ortho:piston', case, 'piston is not identically 1')
    bad = np.argwhere(np.abs(G - np.eye(jmax)) > 1e-8)
    for i, j in bad[:20]:
        kind = 'norm' if i == j else 'cross'
        acc.violation(f'ortho:{kind}', dict(case, i=int(i) + 1, j=int(j) + 1), f'<Z{i + 1} Z{j + 1}>/pi = {G[i, j]:.9f}, expected {1.0 if i == j else 0.0}')
    acc.cls('pairs', jmax * (jmax + 1) // 2)
    acc.transitions += jmax * (jmax + 1) // 2
    acc.case(case, outcome='ortho')


def small_masks():
    out = {}
    out['rect2x3'] = np.ones((2, 3))
    out['rect3x2'] = np.ones((3, 2))
    out['rect1x2'] = np.ones((1, 2))
    L = np.zeros((3, 3)); L[:, 0] = 1; L[2, :] = 1
    out['L'] = L
    d = np.zeros((4, 4)); d[1:3, :] = 1; d[:, 1:3] = 1
    out['disc4'] = d
    d5 = np.zeros((5, 5)); d5[1:4, :] = 1; d5[:, 1:4] = 1
    out['disc5'] = d5
    return out


def chk_coords(case, acc, seed):
    import lentil
    shape, name, pos, val = tuple(case['shape']), case['mask'], tuple(case['pos']), case['val']
    sm = np.ones(shape) if name == 'full' else small_masks()[name]      # 'full': every sample lit (no zero anywhere)
    mask = np.zeros(shape)
    mask[pos[0]:pos[0] + sm.shape[0], pos[1]:pos[1] + sm.shape[1]] = sm * val
    pts = np.argwhere(mask != 0)
    cr = Fr(int(pts[:, 0].sum()), len(pts)); cc = Fr(int(pts[:, 1].sum()), len(pts))
    dist = np.zeros(shape)
    for r in range(shape[0]):
        for c in range(shape[1]):
            dist[r, c] = math.sqrt(float((r - cr) ** 2 + (c - cc) ** 2))
    dmax = max(dist[tuple(p)] for p in pts)
    par = f'rows={"odd" if shape[0] % 2 else "even"},cols={"odd" if shape[1] % 2 else "even"}'
    if case.get('after_other'):
        # call history: another mask on the same array with the same centroid but a different extent was used just before
        other = np.zeros(shape)
        other[pts[:, 0].min():pts[:, 0].max() + 1, pts[:, 1].min():pts[:, 1].max() + 1] = 1
        engine.reset_library_state()         # the history starts from a cold library
        lentil.zernike_coordinates(other)
        lentil.zernike(other, 4)
    try:
        rho, theta = lentil.zernike_coordinates(mask)
    except Exception as e:
        acc.violation(f'coords:raises:{type(e).__name__}', case, repr(e))
        return
    if rm.maxerr(rho * dmax, dist) > 1e-9 * (1 + dmax):
        acc.violation(f'coords:origin:{par}', case,
                      f'rho*rho_max differs from the distance to the mask centroid ({float(cr):.3f},{float(cc):.3f}) by {rm.maxerr(rho * dmax, dist):.3e}')
    on = mask != 0
    if abs(np.max(rho[on]) - 1) > 1e-12:
        acc.violation('coords:rho-max', case, f'max rho over the mask = {np.max(rho[on])}')
    # the memory layout of the mask is not part of it: Fortran-ordered and transposed-view masks give the same coordinates
    # and modes (w9-C11-1)
    try:
        for lname, lay in (('fortran', np.asfortranarray(mask)), ('view', np.ascontiguousarray(mask.T).T)):
            rho_l, th_l = lentil.zernike_coordinates(lay)
            z_l = np.asarray(lentil.zernike(lay, 3), dtype=float)
            z_c = np.asarray(lentil.zernike(mask, 3), dtype=float)
            if rm.maxerr(np.asarray(rho_l), np.asarray(rho)) > 1e-12 or rm.maxerr(z_l, z_c) > 1e-12:
                acc.violation(f'coords:depends-on-memory-layout:{lname}', case, 'coordinates / modes of a mask differ between C order and another memory layout of the same array')
    except Exception as e:
        acc.violation(f'coords:layout:raises:{type(e).__name__}', case, repr(e))
    # through the public mode evaluation: tilt modes are linear about the centroid, modes vanish outside the mask,
    # and only the support of the mask matters
    ref_mask = (mask != 0).astype(float)
    for j in (1, 2, 3, 4, 6, 7):
        z = np.asarray(lentil.zernike(mask, j), dtype=float)
        zb = np.asarray(lentil.zernike(ref_mask, j), dtype=float)
        if np.any(z[~on] != 0):
            acc.violation('coords:nonzero-outside-mask', dict(case, j=j), 'mode is non-zero outside the mask')
        if rm.maxerr(z, zb) > 1e-12:
            acc.violation('coords:depends-on-mask-values', dict(case, j=j), 'mode depends on the mask values, not only on its support')
    # without normalisation too: zero outside the mask, and only the support of the mask matters
    for j in (1, 4, 2, 3, 7, 8, 11):
        zu = np.asarray(lentil.zernike(mask, j, normalize=False), dtype=float)
        zub = np.asarray(lentil.zernike(ref_mask, j, normalize=False), dtype=float)
        if not np.all(np.isfinite(zu)) or np.any(zu[~on] != 0):
            acc.violation('coords:nonzero-outside-mask:unnormalised', dict(case, j=j), 'un-normalised mode is non-zero / not finite outside the mask')
        elif rm.maxerr(zu, zub) > 1e-12:
            acc.violation('coords:depends-on-mask-values:unnormalised', dict(case, j=j), 'un-normalised mode depends on the mask values, not only on its support')
    # ... and with caller-supplied coordinates: still only the support of the mask matters (w8-C11-1)
    try:
        rho_c, th_c = lentil.zernike_coordinates(ref_mask)
        for j in (1, 4, 3, 8):
            for normalize in (True, False):
                zs = np.asarray(lentil.zernike(mask, j, normalize=normalize, rho=np.array(rho_c), theta=np.array(th_c)), dtype=float)
                zsb = np.asarray(lentil.zernike(ref_mask, j, normalize=normalize, rho=np.array(rho_c), theta=np.array(th_c)), dtype=float)
                if rm.maxerr(zs, zsb) > 1e-12:
                    acc.violation('coords:depends-on-mask-values:supplied-coords', dict(case, j=j, normalize=normalize),
                                  'with caller-supplied rho/theta the mode depends on the mask values, not only on its support')
        Bs = np.asarray(lentil.zernike_basis(mask, [4, 2, 7], rho=np.array(rho_c), theta=np.array(th_c)), dtype=float)
        Bsb = np.asarray(lentil.zernike_basis(ref_mask, [4, 2, 7], rho=np.array(rho_c), theta=np.array(th_c)), dtype=float)
        if rm.maxerr(Bs, Bsb) > 1e-12:
            acc.violation('basis:depends-on-mask-values:supplied-coords', case, 'zernike_basis with supplied coordinates depends on the mask values')
    except Exception as e:
        acc.violation(f'coords:supplied:raises:{type(e).__name__}', case, repr(e))
    # the same through the basis / composition helpers, for every mask value
    try:
        Bv = np.asarray(lentil.zernike_basis(mask, [4, 2, 7]), dtype=float)
        Br = np.asarray(lentil.zernike_basis(ref_mask, [4, 2, 7]), dtype=float)
        if rm.maxerr(Bv, Br) > 1e-12:
            acc.violation('basis:depends-on-mask-values', case, f'zernike_basis depends on the mask values, not only on its support (max diff {rm.maxerr(Bv, Br):.3e})')
        cv = np.asarray(lentil.zernike_compose(mask, [0.0, 0.5, -0.25, 0.125]), dtype=float)
        cr_ = np.asarray(lentil.zernike_compose(ref_mask, [0.0, 0.5, -0.25, 0.125]), dtype=float)
        if rm.maxerr(cv, cr_) > 1e-12:
            acc.violation('compose:depends-on-mask-values', case, 'zernike_compose depends on the mask values, not only on its support')
    except Exception as e:
        acc.violation(f'basis:raises:{type(e).__name__}', case, repr(e))
    if val == 1 and len(pts) >= 3:
        # caller-supplied coordinate arrays are inputs: reused across calls with different masks they stay what they were
        rho_s, th_s = lentil.zernike_coordinates(mask, shift=(0.25, -0.5), rotate=15)
        rho_s, th_s = np.array(rho_s, dtype=float), np.array(th_s, dtype=float)
        keep = (rho_s.copy(), th_s.copy())
        want = np.asarray(lentil.zernike(mask, 7, rho=rho_s.copy(), theta=th_s.copy()), dtype=float)
        sub = mask.copy(); sub[tuple(pts[0])] = 0; sub[tuple(pts[-1])] = 0
        lentil.zernike(sub, 7, rho=rho_s, theta=th_s)
        lentil.zernike_basis(sub, [2, 3], rho=rho_s, theta=th_s)
        if not (np.array_equal(rho_s, keep[0]) and np.array_equal(th_s, keep[1])):
            acc.violation('coords:supplied-arrays-modified', case, 'zernike()/zernike_basis() wrote into the caller-supplied rho/theta arrays')
        got = np.asarray(lentil.zernike(mask, 7, rho=rho_s, theta=th_s), dtype=float)
        if rm.maxerr(got, want) > 1e-12:
            acc.violation('coords:supplied-arrays-history', case, 'the value at caller-supplied coordinates changed after the same arrays were used with a smaller mask')
        acc.cls('supplied-reuse')
    if val == 1 and len(pts) >= 3 and dmax > 0:
        # an explicit shift places the origin that far from the array centre floor(n/2) -- (0, 0) included -- whatever the mask
        for sh in ((0, 0), (0.0, 0.0), (1, 0), (0, -1), (0.5, 0.25)):
            try:
                r_e, _t = lentil.zernike_coordinates(mask, shift=sh)
            except Exception as e:
                acc.violation(f'coords:explicit-shift:raises:{type(e).__name__}', dict(case, shift=sh), repr(e))
                continue
            de = np.hypot(np.arange(shape[0])[:, None] - (shape[0] // 2 + sh[0]), np.arange(shape[1])[None, :] - (shape[1] // 2 + sh[1]))
            dm = max(de[tuple(p_)] for p_ in pts)
            if dm > 0 and rm.maxerr(np.asarray(r_e) * dm, de) > 1e-9 * (1 + dm):
                acc.violation('coords:explicit-shift', dict(case, shift=sh), f'with shift={sh} the origin is not at the array centre {tuple(s_ // 2 for s_ in shape)} + shift')
        # caller-supplied coordinates beyond the unit disc: still the textbook polynomial (m = 0 modes: no angular convention)
        rho_b = np.asarray(lentil.zernike_coordinates(mask)[0], float) * 1.7
        th_b = np.asarray(lentil.zernike_coordinates(mask)[1], float)
        for j, poly in ((4, lambda r: 2 * r ** 2 - 1), (11, lambda r: 6 * r ** 4 - 6 * r ** 2 + 1), (22, lambda r: 20 * r ** 6 - 30 * r ** 4 + 12 * r ** 2 - 1)):
            zb_ = np.asarray(lentil.zernike(mask, j, normalize=False, rho=rho_b, theta=th_b), float)
            if rm.maxerr(zb_[on], poly(rho_b[on])) > 1e-9 * (1 + np.max(np.abs(poly(rho_b[on])))):
                acc.violation('value:supplied-rho-beyond-unit-disc', dict(case, j=j), f'Z{j} at caller-supplied rho up to {rho_b[on].max():.2f} is not the radial polynomial (max diff {rm.maxerr(zb_[on], poly(rho_b[on])):.3e})')
        # the rotate argument is an angle in degrees: a full turn is no rotation, a quarter turn is +-pi/2, opposite angles cancel,
        # and it leaves rho alone (which way is positive is not judged)
        try:
            r0, t0 = lentil.zernike_coordinates(mask)
            offs = {}
            for a in (90, -90, 180, 360, 30, 60):
                ra, ta = lentil.zernike_coordinates(mask, rotate=a)
                if rm.maxerr(ra, r0) > 1e-12:
                    acc.violation('coords:rotate-changes-rho', dict(case, rotate=a), 'rotate changes rho')
                sel = on & (dist > 1e-9)
                d = np.angle(np.exp(1j * (np.asarray(ta)[sel] - np.asarray(t0)[sel])))
                if np.max(np.abs(np.exp(1j * d) - np.exp(1j * d[0]))) > 1e-9:
                    acc.violation('coords:rotate-not-rigid', dict(case, rotate=a), 'rotate does not shift theta by one constant angle')
                offs[a] = d[0]
            def off(x, y):
                return abs(np.angle(np.exp(1j * (x - y))))
            bad = []
            if off(offs[360], 0) > 1e-9: bad.append('rotate=360 is not a full turn')
            if off(abs(offs[90]), np.pi / 2) > 1e-9: bad.append(f'rotate=90 shifts theta by {offs[90]:.6f} rad')
            if off(offs[90] + offs[-90], 0) > 1e-9: bad.append('rotate=90 and rotate=-90 do not cancel')
            if off(abs(offs[180]), np.pi) > 1e-9: bad.append(f'rotate=180 shifts theta by {offs[180]:.6f} rad')
            if off(offs[30] + offs[60], offs[90]) > 1e-9: bad.append('rotate=30 then 60 is not rotate=90')
            if bad:
                acc.violation('coords:rotate-degrees', case, '; '.join(bad))
            acc.cls('rotate')
        except Exception as e:
            acc.violation(f'coords:rotate:raises:{type(e).__name__}', case, repr(e))
    if val == 1:
        modes = [4, 2, 7, 1, 11]
        for normalize in (True, False):
            single = np.array([np.asarray(lentil.zernike(mask, j, normalize=normalize), dtype=float) for j in modes])
            for vectorize in (False, True):
                B = np.asarray(lentil.zernike_basis(mask, modes, vectorize=vectorize, normalize=normalize), dtype=float)
                want = single.reshape(len(modes), -1) if vectorize else single
                if B.shape != want.shape or rm.maxerr(B, want) > 1e-12:
                    acc.violation(f'basis:vectorize={vectorize}:normalize={normalize}', dict(case, vectorize=vectorize, normalize=normalize),
                                  'zernike_basis rows differ from zernike() of the same modes with the same normalisation')
            # supplied coordinates, every keyword combination
            rho_s, th_s = lentil.zernike_coordinates(mask, shift=(0.25, -0.5), rotate=15)
            for vectorize in (False, True):
                B = np.asarray(lentil.zernike_basis(mask, modes, vectorize=vectorize, normalize=normalize, rho=rho_s, theta=th_s), dtype=float)
                want = np.array([np.asarray(lentil.zernike(mask, j, normalize=normalize, rho=rho_s, theta=th_s), dtype=float) for j in modes])
                if rm.maxerr(B.reshape(want.shape), want) > 1e-12:
                    acc.violation(f'basis:supplied-coords:vectorize={vectorize}:normalize={normalize}', dict(case, vectorize=vectorize, normalize=normalize), 'basis with supplied coordinates differs from zernike()')
        sc = lentil.zernike_basis(mask, 3)
        if np.asarray(sc).shape != (1,) + shape or rm.maxerr(np.asarray(sc)[0], np.asarray(lentil.zernike(mask, 3), dtype=float)) > 1e-12:
            acc.violation('basis:scalar-mode', case, 'zernike_basis with a scalar mode')
    z2 = np.asarray(lentil.zernike(mask, 2), dtype=float)
    z3 = np.asarray(lentil.zernike(mask, 3), dtype=float)
    if len(pts) >= 3 and dmax > 0:
        dr = np.array([float(p[0] - cr) for p in pts]); dc = np.array([float(p[1] - cc) for p in pts])
        if np.linalg.matrix_rank(np.stack([dr, dc], 1)) == 2:
            for nm, z in (('Z2', z2), ('Z3', z3)):
                Amat = np.stack([np.ones(len(pts)), dr, dc], 1)
                coef, *_ = np.linalg.lstsq(Amat, z[on], rcond=None)
                res = Amat @ coef - z[on]
                if np.max(np.abs(res)) > 1e-9 or abs(coef[0]) > 1e-9:
                    acc.violation(f'coords:tilt-mode-origin:{par}', dict(case, mode=nm),
                                  f'{nm} is not a linear function vanishing at the mask centroid (intercept {coef[0]:.3e})')
        q = z2[on] ** 2 + z3[on] ** 2
        if rm.maxerr(q, 4 * (dist[on] / dmax) ** 2) > 1e-9:
            acc.violation(f'coords:tilt-mode-radius:{par}', case, 'Z2^2+Z3^2 != 4 rho^2 about the centroid')
    acc.cls(par)
    acc.case(case, outcome=par)


DISPATCH = {'index': chk_index, 'values': chk_values, 'ortho': chk_ortho, 'coords': chk_coords}


DISPATCH['histop'] = histories.chk_case

def t_values(arg, acc):
    for j in range(arg['lo'], arg['hi']):
        acc.transitions += 1
        chk_values({'kind': 'values', 'j': j}, acc, arg['seed'])


def t_coords(arg, acc):
    shape = tuple(arg['shape'])
    for val in (1, 0.3, 5, 1e-17, -2.0, True):
        chk_coords({'kind': 'coords', 'shape': shape, 'mask': 'full', 'pos': (0, 0), 'val': val}, acc, arg['seed'])
    chk_coords({'kind': 'coords', 'shape': shape, 'mask': 'full', 'pos': (0, 0), 'val': 1, 'after_other': True}, acc, arg['seed'])
    acc.cls('full-mask')
    for name, sm in small_masks().items():
        for r0 in range(0, shape[0] - sm.shape[0] + 1):
            for c0 in range(0, shape[1] - sm.shape[1] + 1):
                acc.states += 1
                for val in (1, 0.3, 5, 1e-17, -2.0):
                    acc.transitions += 1
                    chk_coords({'kind': 'coords', 'shape': shape, 'mask': name, 'pos': (r0, c0), 'val': val}, acc, arg['seed'])
                if name in ('disc4', 'disc5', 'L'):
                    acc.transitions += 1
                    chk_coords({'kind': 'coords', 'shape': shape, 'mask': name, 'pos': (r0, c0), 'val': 1, 'after_other': True}, acc, arg['seed'])


def t_one(arg, acc):
    DISPATCH[arg['case']['kind']](arg['case'], acc, arg['seed'])


def run(tier, seed, acc, procs=None):
    jidx = 120 if tier == 'quick' else 1000
    jval = 66 if tier == 'quick' else 120
    tasks = [('t_one', {'seed': seed, 'case': {'kind': 'index', 'jmax': jidx}}),
             ('t_one', {'seed': seed, 'case': {'kind': 'ortho', 'jmax': jval}})]
    for lo in range(1, jval + 1, 6):
        tasks.append(('t_values', {'seed': seed, 'lo': lo, 'hi': min(lo + 6, jval + 1)}))
    shapes = [(6, 6), (7, 7), (6, 7), (7, 6), (5, 8), (8, 6)] + ([(8, 5), (6, 10)] if tier != 'quick' else [])
    for s in shapes:
        tasks.append(('t_coords', {'seed': seed, 'shape': s}))
    acc.states += 1
    acc.transitions += len(tasks)
    tasks += histories.tasks_for(PID, seed)        # pairwise call histories over the operations this property is anchored in
    engine.run_parallel(MOD, tasks, acc, procs)
    return {
        'rule': f'index map j = 1..{jidx} against an independent generator of the Noll order (bijection onto (n,m)); mode values j <= '
                f'{jval} on a rational node grid against exact-Fraction radial polynomials x cos/sin x normalisation; all '
                f'{jval * (jval + 1) // 2} pairs of modes by a quadrature exact for the degrees involved; default coordinates for '
                'every placement of 6 small masks on even/odd/non-square arrays with 3 mask values.',
        'bounds': {'index_jmax': jidx, 'value_jmax': jval, 'array_shapes': shapes, 'masks': list(small_masks())},
        'assumptions': ['value tolerance = 1e-10 + 256 eps * sum|c_k| rho^k (rounding bound of the factorial sum)',
                        'sign of the sine modes: either sign accepted per mode; zero direction of theta not judged'],
        'require': {'values': 60, 'full-mask': 4, 'supplied-reuse': 100, 'rows=odd,cols=odd': 50, 'rows=even,cols=even': 50, 'rows=even,cols=odd': 50},
    }


def replay(case, acc):
    if case.get('kind') == 'histop':
        import os as _os
        return histories.chk_case(case, acc, int(_os.environ.get('VERIF_SEED', '0') or 0))
    seed = int(os.environ.get('VERIF_SEED', '0') or 0)
    DISPATCH[case['kind']](case, acc, seed)
