"""C19 -- pixel, jitter and smear blurs are flux-preserving convolutions on any shape."""
import itertools
import math
import os

import numpy as np

from .. import engine, refmodel as rm
from .. import histories
from ..histories import t_callhist, t_cross      # worker tasks of the history harness (mc/histories.py)

PID = 'C19'
MOD = 'mc.props.c19'

SHAPES = [(4, 4), (5, 5), (4, 6), (6, 4), (5, 7), (7, 5), (13, 4)]      # 13: a length FFT libraries like to pad
EXTENTS = [0, 0.25, 0.5, 1, 2.5]
ANGLES = [0, 30, 45, 90, 135, 200]


def dft_mat(N):
    """explicit DFT matrix with the phase index reduced mod N (no numpy.fft)"""
    W = np.empty((N, N), dtype=complex)
    for k in range(N):
        for n in range(N):
            a = 2 * math.pi * ((k * n) % N) / N
            W[k, n] = complex(math.cos(a), -math.sin(a))
    return W


def freqs(N):
    """DFT sample frequencies in cycles/sample, the even-N Nyquist bin at -1/2"""
    return np.array([k / N if k < (N + 1) // 2 else (k - N) / N for k in range(N)])


def sinc(x):
    x = np.asarray(x, dtype=float)
    out = np.ones_like(x)
    nz = x != 0
    out[nz] = np.sin(np.pi * x[nz]) / (np.pi * x[nz])
    return out


def transfer(kind, shape, extent, angle=0.0):
    fy = freqs(shape[0])[:, None] * np.ones((1, shape[1]))
    fx = np.ones((shape[0], 1)) * freqs(shape[1])[None, :]
    if kind == 'pixel':
        return sinc(fx * extent) * sinc(fy * extent)
    if kind == 'jitter':
        return np.exp(-2 * np.pi ** 2 * extent ** 2 * (fx ** 2 + fy ** 2))
    a = math.radians(angle)
    return sinc((math.sin(a) * fy + math.cos(a) * fx) * extent)


def ref_conv(img, H):
    """circular convolution by explicit double sums: IDFT(DFT(img) * H); also the bound on what the unpaired Nyquist
    samples can contribute"""
    R, C = img.shape
    Wr, Wc = dft_mat(R), dft_mat(C)
    F = Wr @ img @ Wc.T
    G = F * H
    out = (np.conj(Wr) @ G @ np.conj(Wc).T) / (R * C)
    nyq = np.zeros((R, C), dtype=bool)
    if R % 2 == 0:
        nyq[R // 2, :] = True
    if C % 2 == 0:
        nyq[:, C // 2] = True
    bound = float(np.sum(np.abs(G[nyq])) / (R * C))
    return out, bound


def call(kind, img, extent, angle=None, pixelscale=1, oversample=1):
    import lentil
    if kind == 'pixel':
        return lentil.detector.pixel(img, oversample=extent)
    if kind == 'jitter':
        return lentil.jitter(img, extent, pixelscale=pixelscale, oversample=oversample)
    return lentil.smear(img, extent, angle=angle, pixelscale=pixelscale, oversample=oversample)


def payloads(shape, seed, impulses):
    out = [('dense', rm.generic_real(shape, seed, tag=1, lo=0.5, hi=3.0)),
           ('smooth', 1.0 + np.add.outer(np.cos(2 * np.pi * np.arange(shape[0]) / shape[0]), 0.5 * np.sin(2 * np.pi * np.arange(shape[1]) / shape[1])) / 4)]
    counts = np.floor(rm.generic_real(shape, seed, tag=3, lo=20, hi=90))
    counts[0, :] += 40                                  # signal on the border: a non-circular convolution would lose it
    out.append(('counts-int64', counts.astype(np.int64)))
    out.append(('counts-uint16', counts.astype(np.uint16)))
    out.append(('float32', counts.astype(np.float32) / 16))
    if impulses:
        for k in range(shape[0] * shape[1]):
            e = np.zeros(shape[0] * shape[1]); e[k] = 1
            out.append((f'e{k}', e.reshape(shape)))
    return out


def chk(case, acc, seed):
    kind, shape, extent = case['blur'], tuple(case['shape']), case['extent']
    angle = case.get('angle', 0)
    sq = 'square' if shape[0] == shape[1] else 'non-square'
    H = transfer(kind, shape, extent, angle)
    for name, img in payloads(shape, seed, impulses=case.get('impulses', False)):
        sub = dict(case, payload=name)
        img0 = img.copy()
        img64 = np.asarray(img, dtype=float)
        try:
            out = np.asarray(call(kind, img, extent, angle))
        except Exception as e:
            acc.violation(f'{kind}:raises:{type(e).__name__}:{sq}', sub, repr(e))
            acc.case(sub, outcome='raise')
            return
        if out.shape != shape:
            acc.violation(f'{kind}:shape:{sq}', sub, f'output shape {out.shape} != input shape {shape}')
            continue
        if np.any(out < 0) or not np.all(np.isfinite(out)):
            acc.violation(f'{kind}:negative', sub, f'min {out.min()}')
        if not np.array_equal(img, img0):
            acc.violation(f'{kind}:input-mutated', sub, 'input image modified')
        scale = (1 + np.max(np.abs(img64))) * (1e5 if img.dtype == np.float32 else 1)
        if extent == 0:
            if rm.maxerr(np.asarray(out, float), img64) > 1e-12 * scale:
                acc.violation(f'{kind}:zero-extent-not-identity', sub, f'max diff {rm.maxerr(out, img):.3e}')
        ref, bound = ref_conv(img64, H)
        tol = bound + 1e-11 * scale
        if np.min(ref.real) >= tol:          # exact convolution non-negative: abs() folds nothing
            acc.cls('conv-compared')
            if rm.maxerr(out, ref.real) > 2 * tol:
                acc.violation(f'{kind}:transfer-function:{sq}', sub,
                              f'output differs from the circular convolution with the analytic transfer function by {rm.maxerr(out, ref.real):.3e} (Nyquist bound {bound:.3e})')
            if abs(out.sum() - img64.sum()) > 2 * tol * img.size:
                acc.violation(f'{kind}:total', sub, f'total {out.sum()} != {img64.sum()}')
        if kind in ('jitter', 'smear') and abs(out.sum() - img64.sum()) > (1e-6 if img.dtype == np.float32 else 1e-10) * img64.sum():
            acc.violation(f'{kind}:total-nonnegative-input', sub, f'total {out.sum()} != {img.sum()}')
        # commutes with every circular translation
        if name in ('dense', 'e0', 'counts-int64'):
            for dr in range(shape[0]):
                for dc in range(shape[1]):
                    o2 = np.asarray(call(kind, np.roll(img, (dr, dc), (0, 1)), extent, angle))
                    if rm.maxerr(o2, np.roll(out, (dr, dc), (0, 1))) > 1e-11 * scale:
                        acc.violation(f'{kind}:translation', dict(sub, roll=[dr, dc]), 'does not commute with circular translation')
                        break
                    acc.transitions += 1
        acc.case(sub, outcome=f'{kind}-{sq}')
    acc.cls(f'{kind}:{sq}')


def chk_units(case, acc, seed):
    """(extent*p, pixelscale p, oversample o) == (extent*o, 1, 1)"""
    kind, shape, extent, p, o = case['blur'], tuple(case['shape']), case['extent'], case['p'], case['o']
    img = rm.generic_real(shape, seed, tag=2, lo=0.5, hi=3.0)
    a = np.asarray(call(kind, img, extent * p, case.get('angle', 30), pixelscale=p, oversample=o))
    b = np.asarray(call(kind, img, extent * o, case.get('angle', 30), pixelscale=1, oversample=1))
    if rm.maxerr(a, b) > 1e-10 * (1 + np.max(img)):
        acc.violation(f'{kind}:physical-units', case, f'(extent*p, pixelscale p, oversample o) differs from (extent*o, 1, 1) by {rm.maxerr(a, b):.3e}')
    acc.cls('units')
    acc.case(case, outcome='units')


def chk_scale(case, acc, seed):
    """linear: the blur of k * image is k * blur(image), for faint and bright frames alike (k a power of two: exact)"""
    kind, shape, extent = case['blur'], tuple(case['shape']), case['extent']
    img = rm.generic_real(shape, seed, tag=5, lo=0.5, hi=3.0)
    base = np.asarray(call(kind, img, extent, 30))
    for e in (-70, -55, -30, 30, 200):
        k = 2.0 ** e
        o = np.asarray(call(kind, img * k, extent, 30))
        if rm.maxerr(o / k, base) > 1e-12 * np.max(base):
            acc.violation(f'{kind}:not-homogeneous', dict(case, factor=f'2^{e}'),
                          f'blur(2^{e} * img) / 2^{e} differs from blur(img) by {rm.maxerr(o / k, base):.3e} (total {np.sum(o / k)} vs {np.sum(base)})')
            break
        acc.transitions += 1
    acc.cls('homogeneity')
    acc.case(case, outcome='scale')


def chk_buffer(case, acc, seed):
    """a frame buffer blurred, refilled in place and blurred again gives the blur of its new contents"""
    k1, k2, shape, extent = case['first'], case['second'], tuple(case['shape']), case['extent']
    a = rm.generic_real(shape, seed, tag=6, lo=0.5, hi=3.0)
    b = np.roll(rm.generic_real(shape, seed, tag=7, lo=0.5, hi=3.0), 1, 0)
    engine.reset_library_state()
    want = np.asarray(call(k2, b.copy(), extent, 45))
    engine.reset_library_state()
    buf = a.copy()
    call(k1, buf, extent, 45)
    buf[...] = b
    got = np.asarray(call(k2, buf, extent, 45))
    if rm.maxerr(got, want) > 1e-12 * np.max(want):
        acc.violation(f'{k2}:stale-after-buffer-refill', case, f'{k1}(buf); buf[...] = new; {k2}(buf) differs from {k2}(new) by {rm.maxerr(got, want):.3e}')
    got2 = np.asarray(call(k2, b.copy(), extent, 45))
    if rm.maxerr(got2, want) > 1e-12 * np.max(want):
        acc.violation(f'{k2}:history-dependent', case, f'{k2} of the same frame differs after an earlier {k1} call')
    acc.cls('buffer-reuse')
    acc.case(case, outcome='buffer')


def chk_big(case, acc, seed):
    """a detector-sized frame (sides not multiples of a power of two): still the circular convolution with the analytic transfer
    function (here through numpy's FFT of the reference kernel) and still commuting with circular translation"""
    kind, shape = case['blur'], tuple(case['shape'])
    rng = np.random.default_rng(1234 + seed)
    img = rng.random(shape) + 0.5
    ext = {'pixel': 3, 'jitter': 1.5, 'smear': 2.5}[kind]
    H = transfer(kind, shape, ext, 30)
    ref = np.abs(np.fft.ifft2(np.fft.fft2(img) * H))
    try:
        out = np.asarray(call(kind, img, ext, 30))
    except Exception as e:
        acc.violation(f'{kind}:big:raises:{type(e).__name__}', case, repr(e))
        return
    if out.shape != shape:
        acc.violation(f'{kind}:big:shape', case, f'{out.shape}')
        return
    if rm.maxerr(out, ref) > 1e-9:
        bad = np.argwhere(np.abs(out - ref) > 1e-9)
        acc.violation(f'{kind}:big:transfer-function', case, f'{len(bad)} samples of a {shape} frame differ from the circular convolution (first at {tuple(bad[0])}, max {rm.maxerr(out, ref):.3e})')
        return
    o2 = np.asarray(call(kind, np.roll(img, (37, -101), (0, 1)), ext, 30))
    if rm.maxerr(o2, np.roll(out, (37, -101), (0, 1))) > 1e-9:
        acc.violation(f'{kind}:big:translation', case, 'does not commute with circular translation on a large frame')
    acc.cls('big-frames')
    acc.case(case, outcome='big')


DISPATCH = {'big': chk_big, 'blur': chk, 'units': chk_units, 'scale': chk_scale, 'buffer': chk_buffer}


DISPATCH['histop'] = histories.chk_case

def t_shape(arg, acc):
    seed, shape, kind = arg['seed'], tuple(arg['shape']), arg['blur']
    exts = EXTENTS if kind != 'pixel' else [0, 1, 2, 3]
    for ext in exts:
        for ang in (ANGLES if kind == 'smear' else [0]):
            acc.states += 1
            chk({'kind': 'blur', 'blur': kind, 'shape': shape, 'extent': ext, 'angle': ang,
                 'impulses': (ang in (0, 30) and ext in (0, 1, 2.5, 2))}, acc, seed)
    if shape == SHAPES[0]:
        for big in ((1101, 1003), (601, 1049)):        # odd sides: no unpaired Nyquist sample
            chk_big({'kind': 'big', 'blur': kind, 'shape': big}, acc, seed)
    for ext in ((1, 2) if kind == 'pixel' else (0.5, 1.5)):
        chk_scale({'kind': 'scale', 'blur': kind, 'shape': shape, 'extent': ext}, acc, seed)
        for k1 in ('pixel', 'jitter', 'smear'):
            chk_buffer({'kind': 'buffer', 'first': k1, 'second': kind, 'shape': shape, 'extent': ext}, acc, seed)
    if kind != 'pixel':
        for ext in (0.5, 1.5):
            for p in (5e-6, 2.0, 4e-9, 3e-12):
                for o in (1, 2, 3):
                    chk_units({'kind': 'units', 'blur': kind, 'shape': shape, 'extent': ext, 'p': p, 'o': o}, acc, seed)
                    if kind == 'smear' and p in (5e-6, 2.0):
                        for ang in (0, 90, 270, -90, 180):       # axis-aligned directions x oversampling (w9-C19-1)
                            chk_units({'kind': 'units', 'blur': kind, 'shape': shape, 'extent': ext, 'p': p, 'o': o, 'angle': ang}, acc, seed)
    if shape == SHAPES[0] and kind != 'pixel':
        # strongly elongated frames with an extent between the short and the long side (w9-C19-2)
        for el in ((5, 64), (64, 5), (9, 201)):
            for ext in (8.0, 12.0):
                chk({'kind': 'blur', 'blur': kind, 'shape': el, 'extent': ext, 'angle': 30, 'impulses': False}, acc, seed)


def run(tier, seed, acc, procs=None):
    shapes = SHAPES + ([(3, 8), (8, 3), (6, 6)] if tier != 'quick' else [])
    tasks = [('t_shape', {'seed': seed, 'shape': s, 'blur': k}) for s in shapes for k in ('pixel', 'jitter', 'smear')]
    acc.states += 1
    acc.transitions += len(tasks)
    tasks += histories.tasks_for(PID, seed)        # pairwise call histories over the operations this property is anchored in
    engine.run_parallel(MOD, tasks, acc, procs)
    return {
        'rule': 'images of 6 (9) shapes incl. non-square, even and odd x dense / smooth non-negative payloads and every unit impulse x '
                'extents {0,1/4,1/2,1,2.5} (pixel widths {0,1,2,3}) x smear angles {0,30,45,90,135,200}: shape, non-negativity, '
                'identity at zero extent, commutation with every circular translation, agreement with the circular convolution '
                '(explicit double-sum DFT, no numpy.fft) with the analytic transfer function wherever that convolution is '
                'non-negative, within the contribution of the unpaired Nyquist samples; totals; physical-unit equivalence.',
        'bounds': {'shapes': shapes, 'extents': EXTENTS, 'angles': ANGLES},
        'assumptions': ['smear direction = (cos a, sin a) in (column, row) frequency coordinates (clockwise from the x axis on a row-down display)',
                        'Nyquist bound = sum |F H| over the unpaired Nyquist bins / N'],
        'require': {'pixel:non-square': 8, 'jitter:non-square': 10, 'smear:non-square': 50, 'pixel:square': 4, 'conv-compared': 100, 'units': 50, 'homogeneity': 30, 'buffer-reuse': 100, 'big-frames': 6},
    }


def replay(case, acc):
    if case.get('kind') == 'histop':
        import os as _os
        return histories.chk_case(case, acc, int(_os.environ.get('VERIF_SEED', '0') or 0))
    seed = int(os.environ.get('VERIF_SEED', '0') or 0)
    DISPATCH[case['kind']](case, acc, seed)
