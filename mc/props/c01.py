"""C01 -- matrix-triple-product DFT equals the defining Fourier sum; inverse; out=."""
import os
from fractions import Fraction as Fr

import numpy as np

from .. import engine, refmodel as rm
from .. import histories
from ..histories import t_callhist, t_cross      # worker tasks of the history harness (mc/histories.py)

PID = 'C01'
MOD = 'mc.props.c01'

SHIFTS = [(0, 0), (1, 0), (0, -2), (0.5, -0.25), (1.75, 2.5)]
OFFSETS = [(0, 0), (1, 0), (0, -1), (-2, 3)]
OUTS = ['none', 'fresh', 'garbage']


def sizes(tier):
    return range(1, 6) if tier == 'quick' else range(1, 8)


def out_shapes(tier):
    s = [None, 3, (1, 1), (2, 5), (4, 3), (6, 6)]
    if tier != 'quick':
        s += [(7, 2), (1, 8)]
    return s


def alphas(m, n):
    return [('full', (1.0 / m, 1.0 / n)), ('1/4', 0.25), ('3/8', 0.375), ('1/7', 1.0 / 7), ('-1/4', -0.25),
            ('(1/4,3/8)', (0.25, 0.375)), ('(1/7,1/3)', (1.0 / 7, 1.0 / 3)), ('(-1/5,1/2)', (-0.2, 0.5))]


def axes(tier):
    return [
        ('m', lambda c: sizes(tier)),
        ('n', lambda c: sizes(tier)),
        ('shape', lambda c: out_shapes(tier)),
        ('alpha', lambda c: alphas(c['m'], c['n'])),
        ('shift', lambda c: SHIFTS),
        ('offset', lambda c: OFFSETS),
        ('unitary', lambda c: [True, False]),
        ('out', lambda c: OUTS),
    ]


def payloads(m, n, seed, impulses):
    d = rm.generic_complex((m, n), seed, tag=m * 10 + n)
    yield 'dense', d
    yield 'zeros', np.zeros((m, n), dtype=complex)
    yield 'tiny', d * 1e-17                    # absolute thresholds show on faint inputs
    if impulses:
        # other legal input classes: column-major layout, a transposed view, real and integer data
        yield 'dense-fortran', np.asfortranarray(d)
        yield 'dense-view', np.ascontiguousarray(d.T).T
        yield 'real-int', np.floor(np.real(d) * 8).astype(np.int64)
        yield 'real-float32', np.real(d).astype(np.float32)
    if impulses and m * n <= 9 and True:
        for k in range(m * n):
            e = np.zeros(m * n, dtype=complex); e[k] = 1
            yield f'e{k}', e.reshape(m, n)
            yield f'ie{k}', (1j * e).reshape(m, n)


def leaf_case(c):
    return {'kind': 'fwd', 'm': c['m'], 'n': c['n'], 'shape': c['shape'], 'alpha': c['alpha'][0],
            'shift': c['shift'], 'offset': c['offset'], 'unitary': c['unitary'], 'out': c['out']}


def alpha_value(name, m, n):
    return dict(alphas(m, n))[name]


def chk_fwd(case, acc, seed):
    import lentil
    import lentil.fourier as lf
    m, n = case['m'], case['n']
    shape = case['shape']
    if isinstance(shape, list):
        shape = tuple(shape)
    alpha = alpha_value(case['alpha'], m, n)
    shift, offset, unitary, outm = tuple(case['shift']), tuple(case['offset']), case['unitary'], case['out']
    M, N = (m, n) if shape is None else ((shape, shape) if np.ndim(shape) == 0 else shape)
    ar, ac = (alpha, alpha) if np.ndim(alpha) == 0 else alpha
    norm = np.sqrt(abs(ar * ac)) if unitary else 1.0
    for pname, f in payloads(m, n, seed, impulses=(outm == 'none')):
        sub = dict(case, payload=pname)
        f0 = f.copy()
        ref = rm.dft2(f, alpha, shape, shift, offset, unitary)
        tol = 1e-9 * (np.sum(np.abs(f)) if pname == 'tiny' else 1 + np.sum(np.abs(f))) * max(norm, 1e-3)
        kw = dict(shape=shape, shift=shift, offset=offset, unitary=unitary)
        # cold
        engine.reset_library_state()     # cold: every library cache cleared
        try:
            cold = lf.dft2(f, alpha, **kw)
        except Exception as e:
            acc.violation(f'dft2:raises:{type(e).__name__}', sub, repr(e))
            acc.case(sub, outcome='raise')
            continue
        cold = np.array(cold, copy=True)
        err = rm.maxerr(cold, ref)
        if not err <= tol:
            acc.violation(f'dft2:value:unitary={unitary}', sub,
                          f'max |dft2 - defining sum| = {err:.3e} > {tol:.1e}; got {cold.ravel()[:3]} want {ref.ravel()[:3]}')
        # warm: same (m,n,M,N), other shift/offset in between -- history must not matter
        lf.dft2(f, alpha, shape=shape, shift=(shift[0] + 1, shift[1] - 0.5), offset=(offset[0] - 1, offset[1] + 2),
                unitary=unitary)
        if outm == 'none':
            warm = lf.dft2(f, alpha, **kw)
        else:
            buf = np.zeros((M, N), dtype=complex)
            if outm == 'garbage':
                buf += (7 - 3j) * (1 + np.arange(M * N).reshape(M, N))
            warm = lf.dft2(f, alpha, out=buf, **kw)
            if warm is not buf and not np.shares_memory(warm, buf):
                acc.violation('dft2:out:not-returned', sub, 'dft2(out=buf) did not write into / return buf')
            if not np.array_equal(buf, cold):
                acc.violation('dft2:out:value', sub,
                              f'out= buffer differs from fresh allocation by {rm.maxerr(buf, cold):.3e}')
        if not np.array_equal(np.asarray(warm), cold):
            acc.violation('dft2:history', sub,
                          f'same call after an unrelated call with equal shapes differs by {rm.maxerr(warm, cold):.3e}')
        if not np.array_equal(f, f0):
            acc.violation('dft2:input-mutated', sub, 'input array changed')
        acc.case(sub, nontrivial=(m * n > 1 or M * N > 1),
                 outcome=f'{"u" if unitary else "n"}-{outm}-{"sq" if ar == ac else "aniso"}')
        acc.cls('aniso' if ar != ac else 'iso')
        if shift != (0, 0) and offset != (0, 0):
            acc.cls('shift+offset')


def chk_large(case, acc, seed):
    """sizes beyond the small scope for the configuration a fast path would single out: one full period, no shift, no offset"""
    import lentil.fourier as lf
    m, n = case['m'], case['n']
    f = rm.generic_complex((m, n), seed, tag=m + n)
    alpha = (1.0 / m, 1.0 / n)
    for unitary in (True, False):
        for form in ('pair', 'scalar'):
            if form == 'scalar' and m != n:
                continue
            a = alpha if form == 'pair' else 1.0 / n
            ref = rm.dft2(f, alpha, unitary=unitary)
            got = lf.dft2(f, a, unitary=unitary)
            tol = 1e-9 * (1 + np.sum(np.abs(f)))
            if rm.maxerr(got, ref) > tol:
                acc.violation(f'dft2:value:full-period:large:{"odd" if (m % 2 or n % 2) else "even"}', dict(case, unitary=unitary, alpha_form=form),
                              f'{m}x{n} full-period transform differs from the defining sum by {rm.maxerr(got, ref):.3e}')
            back = lf.idft2(got, a, unitary=unitary)
            if rm.maxerr(back, f) > tol:
                acc.violation(f'idft2:roundtrip:large:unitary={unitary}', dict(case, unitary=unitary, alpha_form=form), f'round trip error {rm.maxerr(back, f):.3e}')
            # an explicitly requested equal shape, and a shifted / offset call of the same size
            g2 = lf.dft2(f, a, shape=(m, n), unitary=unitary)
            if rm.maxerr(g2, ref) > tol:
                acc.violation('dft2:value:full-period:large:explicit-shape', dict(case, unitary=unitary), f'{rm.maxerr(g2, ref):.3e}')
    # sampling intervals a few parts per million / per thousand off the full period are their own transforms (larger output too)
    for rel in (5e-6, -5e-6, 1e-3, -2e-9):
        a2 = ((1 + rel) / m, (1 - rel) / n)
        for shp in ((m, n), (m + 3, n + 5)):
            got = lf.dft2(f, a2, shape=shp)
            ref2 = rm.dft2(f, a2, shape=shp)
            if rm.maxerr(got, ref2) > 1e-9 * (1 + np.sum(np.abs(f))):
                acc.violation('dft2:value:near-full-period:large', dict(case, rel=rel, shape=shp),
                              f'alpha = (1{rel:+g})/n on a {m}x{n} input differs from the defining sum by {rm.maxerr(got, ref2):.3e}')
                break
    g3 = lf.dft2(f, alpha, shift=(0.5, -1), offset=(1, 0))
    if rm.maxerr(g3, rm.dft2(f, alpha, shift=(0.5, -1), offset=(1, 0))) > 1e-9 * (1 + np.sum(np.abs(f))):
        acc.violation('dft2:value:large:shift+offset', case, 'large shifted/offset transform differs from the defining sum')
    acc.cls('large')
    acc.case(case, outcome='large')


def chk_after_error(case, acc, seed):
    """a refused call must not leave anything behind: the same transforms, cold and after calls that raise"""
    import lentil.fourier as lf
    m, n = case['m'], case['n']
    f = rm.generic_complex((m, n), seed, tag=3)
    alpha = (1.0 / m, 1.0 / n)

    def calls():
        return [np.array(lf.dft2(f, alpha), copy=True), np.array(lf.dft2(f, 0.2, shape=(4, 3), shift=(0.5, 0), offset=(1, -1)), copy=True),
                np.array(lf.idft2(f, alpha), copy=True), np.array(lf.idft2(f, alpha, unitary=False), copy=True)]

    engine.reset_library_state()
    cold = calls()
    engine.reset_library_state()
    errors = 0
    for bad in (lambda: lf.idft2(f, alpha, out=np.zeros((m, n))), lambda: lf.dft2(f, alpha, out=np.zeros((m, n), dtype=np.int64)),
                lambda: lf.dft2(f, alpha, out=np.zeros((m + 1, n), dtype=complex)), lambda: lf.idft2(np.zeros((2, 2, 2)), 0.5),
                lambda: lf.dft2(f, alpha, shape=(2, 2, 2))):
        try:
            bad()
        except Exception:
            errors += 1
    warm = calls()
    for k, (a, b) in enumerate(zip(cold, warm)):
        if not np.array_equal(a, b):
            acc.violation('dft2:history:after-refused-call', dict(case, call=k), f'after {errors} refused calls the same transform differs from the cold result by {rm.maxerr(a, b):.3e}')
    acc.cls('after-error')
    acc.case(case, outcome='after-error')


def chk_out_dtype(case, acc, seed):
    import lentil.fourier as lf
    m, n = case['m'], case['n']
    f = rm.generic_complex((m, n), seed)
    for dt in (float, np.int64):
        try:
            lf.dft2(f, 0.25, out=np.zeros((m, n), dtype=dt))
            acc.violation('dft2:out:dtype-not-refused', dict(case, dtype=str(dt)), 'non-castable out dtype accepted')
        except TypeError:
            pass
        except Exception as e:
            acc.violation('dft2:out:dtype-wrong-exception', dict(case, dtype=str(dt)), repr(e))
    acc.case(case, outcome='out-dtype')


def chk_inv(case, acc, seed):
    """Full period: idft2(dft2(f)) == f for both flags; unitary inverse conserves energy."""
    import lentil.fourier as lf
    m, n, unitary, outm = case['m'], case['n'], case['unitary'], case['out']
    alpha = (1.0 / m, 1.0 / n)
    if case.get('alpha_form') == 'scalar':
        if m != n:
            return
        alpha = 1.0 / n                 # the documented scalar form (isotropic sampling)
    for pname, f in payloads(m, n, seed, impulses=True):
        sub = dict(case, payload=pname)
        F = lf.dft2(f, alpha, unitary=unitary)
        Fref = rm.dft2(f, alpha, unitary=unitary)
        kw = {}
        if outm != 'none':
            kw['out'] = np.full((m, n), 5 + 2j) if outm == 'garbage' else np.zeros((m, n), dtype=complex)
        F0 = np.array(F, copy=True)
        g = lf.idft2(F, alpha, unitary=unitary, **kw)
        tol = 1e-9 * (1 + np.sum(np.abs(np.asarray(f, dtype=complex))))
        err = rm.maxerr(g, np.asarray(f, dtype=complex))
        if not err <= tol:
            ratio = np.sum(np.abs(g)) / max(np.sum(np.abs(f)), 1e-300)
            acc.violation(f'idft2:roundtrip:unitary={unitary}', sub,
                          f'idft2(dft2(f)) != f: max err {err:.3e}; sum|g|/sum|f| = {ratio:.6g} (m*n = {m * n})')
        # inverse against the reference inverse of the reference forward transform
        gref = rm.idft2(Fref, alpha, unitary=unitary)
        if not rm.maxerr(g, gref) <= tol:
            pass  # same defect as above; not double-counted
        if unitary:
            e_in, e_out = np.sum(np.abs(F0) ** 2), np.sum(np.abs(g) ** 2)
            if abs(e_in - e_out) > 1e-9 * (1 + e_in):
                acc.violation('idft2:energy:unitary=True', sub, f'sum|idft2(F)|^2 = {e_out:.6g} != sum|F|^2 = {e_in:.6g}')
            e_f = np.sum(np.abs(np.asarray(f, dtype=complex)) ** 2)
            if abs(e_in - e_f) > 1e-9 * (1 + e_f):
                acc.violation('dft2:energy:unitary=True', sub, f'sum|F|^2 = {e_in:.6g} != sum|f|^2 = {e_f:.6g}')
        if outm != 'none' and not np.shares_memory(g, kw['out']):
            acc.violation('idft2:out:not-returned', sub, 'idft2(out=buf) did not return buf')
        if not np.array_equal(F, F0):
            acc.violation('idft2:input-mutated', sub, 'idft2 changed its input')
        acc.case(sub, nontrivial=m * n > 1, outcome=f'inv-{"u" if unitary else "n"}-{outm}')
        acc.cls('inverse')


DISPATCH = {'fwd': chk_fwd, 'inv': chk_inv, 'outdtype': chk_out_dtype, 'large': chk_large, 'aftererr': chk_after_error}


DISPATCH['histop'] = histories.chk_case

def t_sub(arg, acc):
    tier, seed, ctx = arg['tier'], arg['seed'], arg['ctx']
    ax = axes(tier)
    engine.explore_tree(ax, lambda c, a: chk_fwd(leaf_case(c), a, seed), acc, ctx=dict(ctx), start=3)
    if ctx['shape'] is None:
        m, n = ctx['m'], ctx['n']
        for u in (True, False):
            for o in OUTS:
                acc.transitions += 1
                chk_inv({'kind': 'inv', 'm': m, 'n': n, 'unitary': u, 'out': o}, acc, seed)
                chk_inv({'kind': 'inv', 'm': m, 'n': n, 'unitary': u, 'out': o, 'alpha_form': 'scalar'}, acc, seed)
        chk_out_dtype({'kind': 'outdtype', 'm': m, 'n': n}, acc, seed)


def t_extra(arg, acc):
    DISPATCH[arg['case']['kind']](arg['case'], acc, arg['seed'])


def run(tier, seed, acc, procs=None):
    ax = axes(tier)
    pre = engine.tree_prefixes(ax, 3, acc)
    tasks = [('t_sub', {'tier': tier, 'seed': seed, 'ctx': p}) for p in pre]
    big = [(16, 16), (17, 17), (16, 21), (21, 16), (19, 23), (32, 32), (33, 33)] + ([(40, 37), (64, 63)] if tier != 'quick' else [])
    for m, n in big:
        tasks.append(('t_extra', {'seed': seed, 'case': {'kind': 'large', 'm': m, 'n': n}}))
    for m, n in ((3, 3), (4, 5), (17, 16)):
        tasks.append(('t_extra', {'seed': seed, 'case': {'kind': 'aftererr', 'm': m, 'n': n}}))
    tasks += histories.tasks_for(PID, seed)        # pairwise call histories over the operations this property is anchored in
    engine.run_parallel(MOD, tasks, acc, procs)
    return {
        'rule': 'full cross product input shape x output shape x alpha (scalar/pair, incl. full period, negative, '
                'alpha_row != alpha_col) x fractional shift x integer offset x unitary x out=; payload: dense generic '
                'complex array plus every unit impulse e_k, i*e_k for inputs <= 3x3; every leaf run cold and warm '
                '(LRU cache); inverse sub-tree for the full-period case. Non-trivial: more than one input or output sample.',
        'bounds': {'input_sizes': [min(sizes(tier)), max(sizes(tier))], 'output_shapes': [str(s) for s in out_shapes(tier)],
                   'alphas': [a for a, _ in alphas(3, 4)], 'shifts': SHIFTS, 'offsets': OFFSETS},
        'assumptions': ['reference: defining double sum with exact rational phase reduction (mc/refmodel.py)',
                        'tolerance 1e-9*(1+sum|f|)*norm; structural errors are >= 1e-3 on these payloads'],
        'require': {'large': 7, 'after-error': 3, 'aniso': 1000, 'iso': 1000, 'shift+offset': 1000, 'inverse': 100},
    }


def replay(case, acc):
    if case.get('kind') == 'histop':
        import os as _os
        return histories.chk_case(case, acc, int(_os.environ.get('VERIF_SEED', '0') or 0))
    seed = int(os.environ.get('VERIF_SEED', '0') or 0)
    DISPATCH[case['kind']](case, acc, seed)
