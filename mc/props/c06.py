"""C06 -- Field / extent bookkeeping equals arithmetic on an infinite zero-padded plane.

Reference model: a field is a dict {(r, c): complex} -- its data embedded at
offset - shape//2 + index -- plus a constant term for a one-element operand.
"""
import itertools

import numpy as np

from .. import engine
from .. import histories
from ..histories import t_callhist, t_cross      # worker tasks of the history harness (mc/histories.py)
from ..engine import Acc

PID = 'C06'
MOD = 'mc.props.c06'

ARR_SHAPES = [(2, 2), (2, 3), (3, 2), (3, 3)]
TARGETS = [(1, 1), (2, 2), (3, 4), (4, 3), (5, 5)]
PRIMES = [2, 3, 5, 7, 11, 13, 17, 19, 23, 29, 31, 37, 41, 43, 47, 53, 59, 61, 67, 71, 73, 79, 83,
          89, 97, 101, 103, 107, 109, 113, 127, 131, 137, 139, 149, 151, 157, 163, 167, 173]


def offsets(tier):
    r = 3 if tier == 'quick' else 5
    return [(a, b) for a in range(-r, r + 1) for b in range(-r, r + 1)]


def payload(shape, tag, seed):
    """Distinct primes times a generic complex unit; deterministic in (shape, tag, seed)."""
    n = int(np.prod(shape)) if shape != () else 1
    start = (3 * tag + 5 * seed) % 20
    vals = np.array([PRIMES[start + k] for k in range(n)], dtype=float)
    unit = [1 + 1j, 1 - 0.5j, 2 + 0.25j, -1 + 1j][(tag + seed) % 4]
    return (vals * unit).reshape(shape)


def mkfield(spec, seed):
    from lentil.field import Field
    shape, off, tag = tuple(spec['shape']), spec['offset'], spec.get('tag', 0)
    return Field(data=payload(shape, tag, seed), offset=None if off is None else list(off),
                 pixelscale=spec.get('pixelscale'))


def coords(shape, off):
    """Plane coordinates of every data index (independent of lentil.extent)."""
    return {(i, j): (off[0] - shape[0] // 2 + i, off[1] - shape[1] // 2 + j)
            for i in range(shape[0]) for j in range(shape[1])}


def embed_operand(spec, seed):
    """-> (dict, const)"""
    shape = tuple(spec['shape'])
    data = payload(shape, spec.get('tag', 0), seed)
    if data.size == 1:
        return {}, complex(data.reshape(()))
    off = spec['offset'] or (0, 0)
    return {rc: complex(data[ij]) for ij, rc in coords(shape, off).items()}, 0j


def embed_result(field, both_const):
    data = np.asarray(field.data)
    if data.size == 0:
        return {}, 0j
    if both_const:
        return {}, complex(data.reshape(-1)[0])
    if data.ndim != 2:
        return None
    off = field.offset if field.offset is not None else (0, 0)
    return {rc: complex(data[ij]) for ij, rc in coords(data.shape, off).items()}, 0j


def dict_eq(a, b, tol=1e-9):
    keys = set(a) | set(b)
    for k in keys:
        if abs(a.get(k, 0j) - b.get(k, 0j)) > tol:
            return False, k
    return True, None


def fdigest(f):
    return (np.asarray(f.data).tobytes(), np.asarray(f.data).shape, tuple(np.asarray(f.offset).tolist()),
            repr(f.pixelscale), len(f.tilt))


# ----------------------------------------------------------------------
def field_specs(tier):
    specs = [{'shape': (), 'offset': (0, 0), 'tag': 1}, {'shape': (1, 1), 'offset': (0, 0), 'tag': 2}]
    for k, s in enumerate(ARR_SHAPES):
        for o in offsets(tier):
            specs.append({'shape': s, 'offset': o, 'tag': k})
    return specs


def chk_mul(case, acc, seed):
    a, b = case['a'], case['b']
    fa, fb = mkfield(a, seed), mkfield(b, seed)
    da, db = fdigest(fa), fdigest(fb)
    ea, ca = embed_operand(a, seed)
    eb, cb = embed_operand(b, seed)
    both_const = (fa.size == 1 and fb.size == 1)
    # model product
    if both_const:
        exp = ({}, ca * cb)
    elif fa.size == 1:
        exp = ({k: ca * v for k, v in eb.items()}, 0j)
    elif fb.size == 1:
        exp = ({k: cb * v for k, v in ea.items()}, 0j)
    else:
        exp = ({k: ea[k] * eb[k] for k in set(ea) & set(eb)}, 0j)
    cls = 'const' if (fa.size == 1 or fb.size == 1) else ('overlap' if exp[0] else 'disjoint')
    acc.cls('mul:' + cls)
    try:
        res = fa * fb
    except Exception as e:
        acc.violation(f'mul:{cls}:raises:{type(e).__name__}', case, f'Field*Field raised {e!r}')
        acc.case(case, outcome='mul-raise')
        return
    got = embed_result(res, both_const)
    ok = got is not None and abs(got[1] - exp[1]) < 1e-9 and dict_eq(got[0], exp[0])[0]
    if not ok:
        acc.violation(f'mul:{cls}:value', case,
                      f'product embedding differs: expected {sorted(exp[0].items())[:6]} const={exp[1]} '
                      f'got data={np.asarray(res.data).tolist()} offset={res.offset}')
    if fdigest(fa) != da or fdigest(fb) != db:
        acc.violation('mul:operand-mutated', case, 'an operand changed during multiplication')
    if res.tilt is fa.tilt or res.tilt is fb.tilt:
        acc.violation('mul:tilt-aliased', case, 'result shares its tilt list with an operand')
    acc.case(case, nontrivial=True, outcome=f'mul-{cls}-{np.asarray(res.data).shape}')


def chk_merge(case, acc, seed):
    import lentil.field as lf
    a, b = case['a'], case['b']
    fa, fb = mkfield(a, seed), mkfield(b, seed)
    da, db = fdigest(fa), fdigest(fb)
    ea, ca = embed_operand(a, seed)
    eb, cb = embed_operand(b, seed)
    both_const = fa.size == 1 and fb.size == 1
    if both_const:
        overl = True
        exp = ({}, ca + cb)
    else:
        overl = bool(set(ea) & set(eb))
        exp = ({k: ea.get(k, 0j) + eb.get(k, 0j) for k in set(ea) | set(eb)}, 0j)
    enforce = case.get('enforce', True)
    cls = 'const' if both_const else ('overlap' if overl else 'disjoint')
    acc.cls('merge:' + cls)
    try:
        res = lf.merge(fa, fb, enforce_overlap=enforce)
        raised = None
    except Exception as e:
        res, raised = None, e
    if not overl and enforce:
        if not isinstance(raised, ValueError):
            acc.violation('merge:disjoint:not-refused', case, f'merge of disjoint fields: {raised!r} / {res}')
        acc.case(case, outcome='merge-refused')
        return
    if raised is not None:
        acc.violation(f'merge:{cls}:raises:{type(raised).__name__}', case, f'merge raised {raised!r}')
        acc.case(case, outcome='merge-raise')
        return
    got = embed_result(res, both_const)
    ok = got is not None and abs(got[1] - exp[1]) < 1e-9 and dict_eq(got[0], exp[0])[0]
    if not ok:
        acc.violation(f'merge:{cls}:value', case,
                      f'merge is not the sum: expected {sorted(exp[0].items())[:8]} const={exp[1]} '
                      f'got data={np.asarray(res.data).tolist()} offset={res.offset}')
    if fdigest(fa) != da or fdigest(fb) != db:
        acc.violation('merge:operand-mutated', case, 'an operand changed during merge')
    acc.case(case, outcome=f'merge-{cls}-{np.asarray(res.data).shape}')


def chk_insert(case, acc, seed):
    import lentil.field as lf
    spec, T = case['f'], tuple(case['target'])
    f = mkfield(spec, seed)
    d0 = fdigest(f)
    emb, _ = embed_operand(spec, seed)
    tcoords = {(i - T[0] // 2, j - T[1] // 2): (i, j) for i in range(T[0]) for j in range(T[1])}
    inside = [rc for rc in emb if rc in tcoords]
    cls = 'all' if len(inside) == len(emb) else ('some' if inside else 'none')
    acc.cls('insert:' + cls)
    if cls == 'some':
        rs = [rc[0] for rc in emb]; cs = [rc[1] for rc in emb]
        tr = [rc[0] for rc in tcoords]; tc = [rc[1] for rc in tcoords]
        if min(rs) < min(tr): acc.cls('insert:clip-top')
        if max(rs) > max(tr): acc.cls('insert:clip-bottom')
        if min(cs) < min(tc): acc.cls('insert:clip-left')
        if max(cs) > max(tc): acc.cls('insert:clip-right')
    for intensity in (False, True):
        for weight in (1, 0.5, 3, -2):
            for prefill in (False, True):
                dtype = float if intensity else complex
                out = np.zeros(T, dtype=dtype)
                if prefill:
                    out += (np.arange(out.size).reshape(T) + 1) * 0.125
                before = out.copy()
                exp = before.copy()
                for rc in inside:
                    v = emb[rc]
                    exp[tcoords[rc]] += (abs(v) ** 2 if intensity else v) * weight
                sub = dict(case, intensity=intensity, weight=weight, prefill=prefill)
                try:
                    ret = lf.insert(f, out, intensity=intensity, weight=weight)
                except Exception as e:
                    acc.violation(f'insert:{cls}-inside:raises:{type(e).__name__}', sub,
                                  f'insert raised {e!r} (field extent wholly/partly outside target)')
                    acc.case(sub, outcome=f'insert-{cls}-raise')
                    continue
                if not np.allclose(ret, exp, rtol=0, atol=1e-9) or not np.allclose(out, exp, rtol=0, atol=1e-9):
                    acc.violation(f'insert:{cls}-inside:value', sub,
                                  f'insert added the wrong samples: expected {exp.tolist()} got {np.asarray(ret).tolist()}')
                if fdigest(f) != d0:
                    acc.violation('insert:field-mutated', sub, 'field changed during insert')
                acc.case(sub, outcome=f'insert-{cls}')


def chk_reuse(case, acc, seed):
    """a Field whose offset is an integer ndarray, used more than once: insert twice, then multiply and merge -- the second use
    must see the same Field as the first"""
    import lentil.field as lf
    from lentil.field import Field
    spec, T = case['f'], tuple(case['target'])
    shape = tuple(spec['shape'])
    off = np.array(spec['offset'], dtype=int)
    off0 = off.copy()
    f = Field(data=payload(shape, spec.get('tag', 0), seed), offset=off)
    emb, _ = embed_operand(spec, seed)
    tcoords = {(i - T[0] // 2, j - T[1] // 2): (i, j) for i in range(T[0]) for j in range(T[1])}
    exp = np.zeros(T, dtype=complex)
    for rc, v in emb.items():
        if rc in tcoords:
            exp[tcoords[rc]] += v
    for k in (1, 2, 3):
        got = lf.insert(f, np.zeros(T, dtype=complex))
        if not np.allclose(got, exp, atol=1e-9, rtol=0):
            acc.violation(f'insert:reuse:use-{k}', dict(case, use=k), f'insert number {k} of the same Field differs from the first')
            break
    if not np.array_equal(off, off0) or not np.array_equal(np.asarray(f.offset), off0):
        acc.violation('insert:offset-array-mutated', case, f"the caller's offset array changed from {off0.tolist()} to {np.asarray(off).tolist()}")
    # the same Field in a product afterwards
    g = Field(data=np.ones(shape, dtype=complex), offset=off0.tolist())
    pr = f * g
    e2 = embed_result(pr, False)
    if e2 is None or not dict_eq(e2[0], emb)[0]:
        acc.violation('insert:reuse:then-mul', case, 'product after repeated inserts differs from the embedding')
    acc.cls('reuse')
    acc.case(case, outcome='reuse')


def chk_large_merge(case, acc, seed):
    """sizes beyond the small scope, results kept while further merges of the same box shape are made"""
    import lentil.field as lf
    from lentil.field import Field
    n, d = case['n'], case['shift']
    rng = np.arange(n * n).reshape(n, n)
    mk = lambda k, off: Field(data=(rng % 7 + 1 + k) * (1 + 0.5j * k), offset=list(off))
    a, b = mk(1, (0, 0)), mk(2, (d, d))
    r1 = lf.merge(a, b)
    keep1 = np.array(r1.data, copy=True)
    c, e = mk(3, (0, 0)), mk(4, (d, d))          # same bounding-box shape as the first merge
    r2 = lf.merge(c, e)
    if not np.array_equal(r1.data, keep1):
        acc.violation('merge:result-changes-later:large', case, f'the Field returned by an earlier merge of a {r1.data.shape} box changed when another merge of the same box shape was made')
    if np.shares_memory(r1.data, r2.data):
        acc.violation('merge:results-share-memory:large', case, 'two merge results share one data array')
    # model for the first merge
    exp = np.zeros((n + abs(d), n + abs(d)), dtype=complex)
    exp[:n, :n] += np.asarray(a.data) if d >= 0 else 0
    if d >= 0:
        exp[d:d + n, d:d + n] += np.asarray(b.data)
        if keep1.shape != exp.shape or not np.allclose(keep1, exp):
            acc.violation('merge:overlap:value:large', case, 'large merge is not the sum of its operands')
    # reduce over four fields forming two groups whose bounding boxes have the same shape
    far = 5 * n
    fs = [mk(1, (0, 0)), mk(2, (d, d)), mk(3, (far, far)), mk(4, (far + d, far + d))]
    res = lf.reduce(fs)
    if len(res) != 2:
        acc.violation('reduce:groups:large', case, f'{len(res)} groups instead of 2')
    elif np.shares_memory(res[0].data, res[1].data):
        acc.violation('reduce:results-share-memory:large', case, 'the two reduced fields share one data array')
    else:
        tot = sum(complex(np.sum(f.data)) for f in res)
        want = sum(complex(np.sum(f.data)) for f in fs)
        if abs(tot - want) > 1e-9 * abs(want):
            acc.violation('reduce:total:large', case, f'total {tot} != {want}')
    acc.cls('large-merge')
    acc.case(case, outcome='large-merge')


def chk_same_object(case, acc, seed):
    """the very same Field object listed twice is two contributions"""
    import lentil.field as lf
    specs = [REDUCE_POOL[i] for i in case['seq']]
    objs = {}
    fields = []
    for i, sp in zip(case['seq'], specs):
        if i not in objs:
            objs[i] = mkfield(sp, seed)
        fields.append(objs[i])                     # repeated index -> identical object
    total = {}
    for sp in specs:
        e, _ = embed_operand(sp, seed)
        for k, v in e.items():
            total[k] = total.get(k, 0j) + v
    try:
        res = lf.reduce(fields)
    except Exception as e:
        acc.violation(f'reduce:same-object:raises:{type(e).__name__}', case, repr(e))
        return
    got = {}
    for f in res:
        e = embed_result(f, False)
        for k, v in (e[0] if e else {}).items():
            got[k] = got.get(k, 0j) + v
    if not dict_eq(got, total)[0]:
        acc.violation('reduce:same-object-listed-twice', case, 'a Field object that appears twice in the collection is counted once')
    if len(case['seq']) == 2 and case['seq'][0] == case['seq'][1]:
        m = lf.merge(fields[0], fields[1])
        e = embed_result(m, False)
        if e is None or not dict_eq(e[0], total)[0]:
            acc.violation('merge:same-object-twice', case, 'merge(a, a) is not 2a')
    acc.cls('same-object')
    acc.case(case, outcome='same-object')


def chk_insert0(case, acc, seed):
    """0-d field into 0-d target (the default wavefront)."""
    import lentil.field as lf
    f = mkfield({'shape': (), 'offset': (0, 0), 'tag': 3}, seed)
    for intensity in (False, True):
        out = np.zeros((), dtype=float if intensity else complex)
        v = complex(f.data)
        ret = lf.insert(f, out, intensity=intensity, weight=0.5)
        exp = (abs(v) ** 2 if intensity else v) * 0.5
        if abs(complex(ret) - exp) > 1e-9:
            acc.violation('insert:scalar:value', dict(case, intensity=intensity), f'{ret} != {exp}')
        acc.case(dict(case, intensity=intensity), outcome='insert-0d')


def chk_extent(case, acc, seed):
    import lentil.extent as le
    sa, oa, sb, ob = tuple(case['sa']), tuple(case['oa']), tuple(case['sb']), tuple(case['ob'])
    A = set(coords(sa, oa).values())
    B = set(coords(sb, ob).values())

    def box(S):
        rs = [p[0] for p in S]; cs = [p[1] for p in S]
        return (min(rs), max(rs), min(cs), max(cs))

    ea, eb = le.array_extent(sa, oa), le.array_extent(sb, ob)
    if tuple(ea) != box(A):
        acc.violation('extent:array_extent', case, f'array_extent({sa},{oa})={ea} != {box(A)}')
    # centre = coordinate of data index floor(n/2)
    ctr = coords(sa, oa)[(sa[0] // 2, sa[1] // 2)]
    if tuple(le.array_center(ea)) != ctr:
        acc.violation('extent:array_center', case, f'array_center={le.array_center(ea)} != {ctr}')
    # parent-relative extent
    P = tuple(case.get('parent', (5, 6)))
    ep = le.array_extent(sa, oa, parent_shape=P)
    bp = box({(r + P[0] // 2, c + P[1] // 2) for r, c in A})
    if tuple(int(x) for x in ep) != bp:
        acc.violation('extent:parent', case, f'array_extent(parent)={ep} != {bp}')
    I = A & B
    if bool(le.intersect(ea, eb)) != bool(I):
        acc.violation('extent:intersect', case, f'intersect={le.intersect(ea, eb)} but sets share {len(I)}')
    ishape = le.intersection_shape(ea, eb)
    if I:
        bi = box(I)
        eshape = (bi[1] - bi[0] + 1, bi[3] - bi[2] + 1)
        if tuple(ishape) != eshape:
            acc.violation('extent:intersection_shape', case, f'{ishape} != {eshape}')
        if tuple(le.intersection_extent(ea, eb)) != bi:
            acc.violation('extent:intersection_extent', case, f'{le.intersection_extent(ea, eb)} != {bi}')
        eshift = (bi[0] + eshape[0] // 2, bi[2] + eshape[1] // 2)
        if tuple(le.intersection_shift(ea, eb)) != eshift:
            acc.violation('extent:intersection_shift', case, f'{le.intersection_shift(ea, eb)} != {eshift}')
        s1, s2 = le.intersection_slices(ea, eb)
        ca, cb = coords(sa, oa), coords(sb, ob)
        ia = np.arange(sa[0] * sa[1]).reshape(sa)[s1]
        ib = np.arange(sb[0] * sb[1]).reshape(sb)[s2]
        pa = [ca[divmod(int(k), sa[1])] for k in ia.ravel()]
        pb = [cb[divmod(int(k), sb[1])] for k in ib.ravel()]
        if pa != pb or set(pa) != I or ia.shape != eshape:
            acc.violation('extent:intersection_slices', case, f'slices {s1},{s2} select {pa} / {pb}, expected {sorted(I)}')
        acc.cls('extent:overlapping')
    else:
        if tuple(ishape) != ():
            acc.violation('extent:intersection_shape', case, f'disjoint but shape {ishape}')
        acc.cls('extent:disjoint')
    # a one-element (0-d) array sits on the centre sample; also relative to a parent array
    for sh0 in ((), (1, 1)):
        for P0 in ((5, 6), (4, 4), (1, 1)):
            e0 = le.array_extent(sh0, oa, parent_shape=P0)
            want0 = (oa[0] + P0[0] // 2, oa[0] + P0[0] // 2, oa[1] + P0[1] // 2, oa[1] + P0[1] // 2)
            if tuple(int(x) for x in e0) != want0:
                acc.violation('extent:parent:one-element', dict(case, shape0=list(sh0), parent=P0), f'array_extent({sh0}, {oa}, parent_shape={P0}) = {e0} != {want0}')
        e1 = le.array_extent(sh0, oa)
        if tuple(int(x) for x in e1) != (oa[0], oa[0], oa[1], oa[1]):
            acc.violation('extent:one-element', dict(case, shape0=list(sh0)), f'{e1}')
    # field-level queries
    import lentil.field as lf
    from lentil.field import Field
    fa = Field(np.ones(sa), offset=list(oa)); fb = Field(np.ones(sb), offset=list(ob))
    if tuple(fa.extent) != box(A):
        acc.violation('extent:field.extent', case, f'{fa.extent} != {box(A)}')
    bb = tuple(int(x) for x in lf.boundary((fa, fb)))
    if bb != box(A | B):
        neg = 'negative-only' if (box(A | B)[1] < 0 or box(A | B)[3] < 0) else 'general'
        acc.violation(f'boundary:{neg}', case, f'field.boundary={bb} != {box(A | B)}')
    # any iterable of fields, not only a list or tuple
    for kind, make in (('list', lambda: [fa, fb]), ('generator', lambda: (f for f in (fa, fb))), ('iterator', lambda: iter([fa, fb])),
                       ('map', lambda: map(lambda f: f, [fb, fa])), ('dict-values', lambda: {1: fa, 2: fb}.values())):
        try:
            bk = tuple(int(x) for x in lf.boundary(make()))
        except Exception as e:
            acc.violation(f'boundary:iterable:{kind}:raises:{type(e).__name__}', dict(case, iterable=kind), repr(e))
            continue
        if bk != box(A | B):
            acc.violation(f'boundary:iterable:{kind}', dict(case, iterable=kind), f'field.boundary(<{kind}>)={bk} != {box(A | B)}')
    acc.cls('boundary:iterables')
    if bool(lf.overlap((fa, fb))) != bool(I):
        acc.violation('extent:overlap', case, f'overlap={lf.overlap((fa, fb))} sets share {len(I)}')
    b1 = tuple(int(x) for x in lf.boundary((fa,)))
    if b1 != box(A):
        neg = 'negative-only' if (box(A)[1] < 0 or box(A)[3] < 0) else 'general'
        acc.violation(f'boundary:{neg}', case, f'field.boundary(single)={b1} != {box(A)}')
    acc.case(case, outcome='ext-' + ('ov' if I else 'dj'))


# reduce pool: chains (A~B, B~C, A!~C), bounding-box growth swallowing a third field,
# negative-only extents, identical placement, far-away field.
REDUCE_POOL = [
    {'shape': (2, 2), 'offset': (0, 0), 'tag': 0},
    {'shape': (2, 2), 'offset': (1, 1), 'tag': 1},
    {'shape': (2, 2), 'offset': (2, 2), 'tag': 2},
    {'shape': (2, 3), 'offset': (0, 3), 'tag': 3},
    {'shape': (3, 2), 'offset': (3, 0), 'tag': 4},
    {'shape': (3, 3), 'offset': (-4, -4), 'tag': 5},
    {'shape': (2, 2), 'offset': (-5, -3), 'tag': 6},
    {'shape': (2, 2), 'offset': (2, -1), 'tag': 7},     # inside the bbox of {0,4}? no: touches when {1,4} merge
    {'shape': (3, 3), 'offset': (1, 1), 'tag': 8},
    {'shape': (2, 2), 'offset': (0, 0), 'tag': 9},      # same placement as #0
    {'shape': (2, 3), 'offset': (-2, 4), 'tag': 10},
    {'shape': (2, 2), 'offset': (7, 7), 'tag': 11},
]


def chk_reduce(case, acc, seed):
    import lentil.field as lf
    idx = case['seq']
    specs = [REDUCE_POOL[i] for i in idx]
    fields = [mkfield(s, seed) for s in specs]
    if case.get('tilted'):
        # Fields that carry different tilt records (every second one, and one shared object) overlap or not as their samples do
        import lentil
        shared = lentil.Tilt(x=1e-6, y=0)
        for k, f in enumerate(fields):
            if case['tilted'] == 'alternate' and k % 2 == 0:
                f.tilt = [lentil.Tilt(x=1e-6 * (k + 1), y=-2e-6)]
            elif case['tilted'] == 'shared':
                f.tilt = [shared]
            elif case['tilted'] == 'first' and k == 0:
                f.tilt = [shared]
        acc.cls('reduce:tilted')
    digs = [fdigest(f) for f in fields]
    total = {}
    for s in specs:
        e, _ = embed_operand(s, seed)
        for k, v in e.items():
            total[k] = total.get(k, 0j) + v
    try:
        res = lf.reduce(fields)
    except Exception as e:
        acc.violation(f'reduce:raises:{type(e).__name__}', case, f'reduce raised {e!r}')
        acc.case(case, outcome='reduce-raise')
        return
    got = {}
    boxes = []
    for f in res:
        e = embed_result(f, False)
        if e is None:
            acc.violation('reduce:shape', case, f'result field has shape {np.asarray(f.data).shape}')
            continue
        pts = set(e[0])
        boxes.append(pts)
        for k, v in e[0].items():
            got[k] = got.get(k, 0j) + v
    for p, q in itertools.combinations(boxes, 2):
        if p & q:
            acc.violation('reduce:overlapping-results', case, f'two result fields share samples {sorted(p & q)[:4]}')
            break
    ok, where = dict_eq(got, total)
    if not ok:
        neg = any(max(k[0] for k in embed_operand(s, seed)[0]) < 0 or max(k[1] for k in embed_operand(s, seed)[0]) < 0
                  for s in specs)
        acc.violation('reduce:total:' + ('with-negative-only-field' if neg else 'general'), case,
                      f'sum of reduced fields differs from sum of inputs at {where}: '
                      f'{got.get(where)} != {total.get(where)}')
    if [fdigest(f) for f in fields] != digs:
        acc.violation('reduce:input-mutated', case, 'an input field changed')
    # overlap() on a collection: true iff everything ends in one group
    if len(fields) > 2:
        ov = lf.overlap(fields)
        if bool(ov) != (len(res) == 1):
            acc.violation('reduce:overlap-collection', case, f'overlap()={ov} but reduce gave {len(res)} groups')
    acc.cls(f'reduce:groups={len(res)}')
    acc.case(case, outcome=f'reduce-{len(idx)}->{len(res)}')


DISPATCH = {'largemerge': chk_large_merge, 'sameobj': chk_same_object, 'reuse': chk_reuse, 'mul': chk_mul, 'merge': chk_merge, 'insert': chk_insert, 'insert0': chk_insert0,
            'extent': chk_extent, 'reduce': chk_reduce}


DISPATCH['histop'] = histories.chk_case

# ----------------------------------------------------------------------
# tasks
def t_mul(arg, acc):
    specs = field_specs(arg['tier'])
    for i in arg['rows']:
        acc.states += 1
        for b in specs:
            acc.transitions += 1
            chk_mul({'kind': 'mul', 'a': specs[i], 'b': b}, acc, arg['seed'])


def t_merge(arg, acc):
    specs = field_specs(arg['tier'])
    for i in arg['rows']:
        acc.states += 1
        a = specs[i]
        for b in specs:
            if (np.prod(a['shape']) == 1) != (np.prod(b['shape']) == 1):
                continue   # infinite constant + finite array: not representable, statement silent
            if a['shape'] == () and b['shape'] == (1, 1) or a['shape'] == (1, 1) and b['shape'] == ():
                continue
            acc.transitions += 1
            chk_merge({'kind': 'merge', 'a': a, 'b': b, 'enforce': True}, acc, arg['seed'])
            if np.prod(a['shape']) > 1 and (abs(a['offset'][0] - b['offset'][0]) + abs(a['offset'][1] - b['offset'][1])) % 3 == 0:
                chk_merge({'kind': 'merge', 'a': a, 'b': b, 'enforce': False}, acc, arg['seed'])


def t_insert(arg, acc):
    specs = [s for s in field_specs(arg['tier']) if np.prod(s['shape']) > 1]
    for i in arg['rows']:
        if i >= len(specs):
            continue
        acc.states += 1
        for T in TARGETS:
            acc.transitions += 1
            chk_insert({'kind': 'insert', 'f': specs[i], 'target': T}, acc, arg['seed'])
            chk_reuse({'kind': 'reuse', 'f': specs[i], 'target': T}, acc, arg['seed'])
    if 0 in arg['rows']:
        chk_insert0({'kind': 'insert0'}, acc, arg['seed'])


def t_extent(arg, acc):
    shapes = [(1, 1), (1, 2), (2, 1), (2, 2), (2, 3), (3, 2), (3, 3), (4, 3), (3, 4), (4, 4)]
    r = 3 if arg['tier'] == 'quick' else 4
    offs = [(a, b) for a in range(-r, r + 1) for b in range(-r, r + 1)]
    sa = shapes[arg['row']]
    for oa in ([(0, 0), (-4, -5), (2, -3)] if arg['tier'] == 'quick' else [(0, 0), (-4, -5), (2, -3), (-1, 6), (5, 5)]):
        acc.states += 1
        for sb in shapes:
            for ob in offs:
                acc.transitions += 1
                chk_extent({'kind': 'extent', 'sa': sa, 'oa': oa, 'sb': sb, 'ob': (oa[0] + ob[0], oa[1] + ob[1])},
                           acc, arg['seed'])


def t_reduce(arg, acc):
    """E2: state = sequence of fields added so far; event = add one pool field."""
    depth, seed, first = arg['depth'], arg['seed'], arg['first']
    frontier = [[first]]
    acc.states += 1
    chk_reduce({'kind': 'reduce', 'seq': [first]}, acc, seed)
    for d in range(1, depth):
        nxt = []
        for seq in frontier:
            for j in range(len(REDUCE_POOL)):
                acc.transitions += 1
                s2 = seq + [j]
                acc.states += 1
                chk_reduce({'kind': 'reduce', 'seq': s2}, acc, seed)
                if len(s2) <= 3:
                    for tl in ('alternate', 'shared', 'first'):
                        chk_reduce({'kind': 'reduce', 'seq': s2, 'tilted': tl}, acc, seed)
                nxt.append(s2)
        frontier = nxt


def t_large(arg, acc):
    for n in ((30, 33, 40) if arg['tier'] == 'quick' else (30, 32, 33, 40, 64)):
        for d in (6, 1, 15):
            acc.transitions += 1
            chk_large_merge({'kind': 'largemerge', 'n': n, 'shift': d}, acc, arg['seed'])
    import itertools as it
    for seq in list(it.product(range(len(REDUCE_POOL)), repeat=2)) + [(0, 1, 2, 0), (5, 6, 5), (0, 9, 0, 9), (3, 3, 3)]:
        if len(set(seq)) < len(seq):
            acc.transitions += 1
            chk_same_object({'kind': 'sameobj', 'seq': list(seq)}, acc, arg['seed'])


def run(tier, seed, acc, procs=None):
    n = len(field_specs(tier))
    chunk = 4 if tier == 'quick' else 6
    rows = [list(range(i, min(i + chunk, n))) for i in range(0, n, chunk)]
    tasks = []
    for r in rows:
        tasks.append(('t_mul', {'tier': tier, 'seed': seed, 'rows': r}))
        tasks.append(('t_merge', {'tier': tier, 'seed': seed, 'rows': r}))
        tasks.append(('t_insert', {'tier': tier, 'seed': seed, 'rows': r}))
    for k in range(10):
        tasks.append(('t_extent', {'tier': tier, 'seed': seed, 'row': k}))
    depth = 3 if tier == 'quick' else 4
    for f in range(len(REDUCE_POOL)):
        tasks.append(('t_reduce', {'depth': depth, 'seed': seed, 'first': f}))
    tasks.append(('t_large', {'seed': seed, 'tier': tier}))
    acc.states += 1
    acc.transitions += len(tasks)
    tasks += histories.tasks_for(PID, seed)        # pairwise call histories over the operations this property is anchored in
    engine.run_parallel(MOD, tasks, acc, procs)
    return {
        'rule': 'all ordered pairs of fields (4 array shapes x every offset in the square, plus the two '
                'one-element fields at the origin) for mul and merge; every array field x 5 targets x '
                '{field,intensity} x 3 weights x {zero,prefilled} for insert; every ordered sequence of '
                f'1..{depth} fields from a 12-field pool for reduce; every pair of extents for the queries. '
                'A case is non-trivial unless it is a root/initial state; distinct by JSON digest.',
        'bounds': {'offset_range': 3 if tier == 'quick' else 5, 'array_shapes': ARR_SHAPES, 'targets': TARGETS,
                   'reduce_depth': depth, 'reduce_pool': len(REDUCE_POOL)},
        'assumptions': ['one-element operands only at offset (0,0) (the only place the Plane/Wavefront API puts them)',
                        'merge of an infinite constant with a finite array is not representable and is left out',
                        'payloads are products of small primes (exact in binary floating point)'],
        'require': {'large-merge': 9, 'same-object': 10, 'reduce:tilted': 100, 'mul:overlap': 100, 'mul:disjoint': 100, 'mul:const': 10, 'merge:overlap': 100,
                    'merge:disjoint': 100, 'insert:all': 10, 'insert:some': 100, 'insert:none': 100,
                    'insert:clip-top': 10, 'insert:clip-bottom': 10, 'insert:clip-left': 10,
                    'insert:clip-right': 10, 'extent:overlapping': 100, 'extent:disjoint': 100},
    }


def replay(case, acc):
    if case.get('kind') == 'histop':
        import os as _os
        return histories.chk_case(case, acc, int(_os.environ.get('VERIF_SEED', '0') or 0))
    seed = int(__import__('os').environ.get('VERIF_SEED', '0') or 0)
    DISPATCH[case['kind']](case, acc, seed)
