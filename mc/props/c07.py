"""C07 -- wavefront views agree with each other; planes act as pointwise phasors (E2: BFS over plane chains)."""
import hashlib
import os

import numpy as np

from .. import engine, optics as op, refmodel as rm
from .. import histories
from ..histories import t_callhist, t_cross      # worker tasks of the history harness (mc/histories.py)

PID = 'C07'
MOD = 'mc.props.c07'
S = (4, 5)
WL, DX, DU = op.WL, op.DX, op.DU

MUL_TABLE = {('none', 'none'): 'none', ('none', 'pupil'): 'pupil', ('none', 'image'): 'image', ('none', 'tilt'): 'none',
             ('pupil', 'pupil'): 'pupil', ('pupil', 'tilt'): 'pupil', ('image', 'image'): 'image', ('image', 'tilt'): 'image'}


def arrays(seed):
    A1, O1, M_off = op.pupil_arrays(S, 'offcentre', seed, tag=1)
    A2, O2, _ = op.pupil_arrays(S, 'full', seed, tag=2)
    A3, O3, _ = op.pupil_arrays(S, 'full', seed, tag=3)
    M1 = np.zeros(S); M1[1:4, 1:4] = 1
    seg = np.zeros((2,) + S)
    for r in range(S[0]):
        for c in range(S[1]):
            if r <= 3 and c <= 3 and (r + c) % 2 == 0:
                seg[0, r, c] = 1
            elif r >= 1 and c >= 1 and (r + c) % 2 == 1:
                seg[1, r, c] = 1
    As, Os, _ = op.pupil_arrays((3, 3), 'full', seed, tag=4)
    # smooth-ish OPD with real tilt for the fit_tilt variants
    rr, cc = np.meshgrid(np.arange(S[0]) - S[0] // 2, np.arange(S[1]) - S[1] // 2, indexing='ij')
    rr = rr.astype(float)
    Ot = O1 + (0.11 * rr - 0.07 * cc) * WL
    # three segments whose fitted tilts displace their image windows by 0, 1 and 2 samples (prop_small: a 2x2 window),
    # so that the output Fields overlap as a chain: A~B, B~C, but not A~C
    seg3 = np.zeros((3,) + S)
    seg3[0][:, 0:2] = 1
    seg3[1][0:2, 2:4] = 1
    seg3[2][2:4, 2:4] = 1; seg3[2][:, 4] = 1
    O3t = np.array(O3, copy=True) * 0.25
    for k in range(3):
        O3t = O3t + seg3[k] * (k * DU / 1.0) * rr * DX
    return dict(A1=A1, O1=O1, A2=A2, O2=O2, A3=A3 * (seg.sum(0) > 0), O3=O3, M1=M1, seg=seg, As=As, Os=Os, Ot=Ot, seg3=seg3, O3t=O3t)


def make_plane(name, seed):
    """-> (lentil plane, model info)"""
    import lentil
    a = arrays(seed)
    c = lambda x: np.array(x, copy=True)
    info = dict(ptype='none', z=None, ps=None, shape=S, amp=1.0, opd=0.0, mask=None, tilt=0)
    if name == 'plane0':
        return lentil.Plane(), dict(info, shape=())
    if name == 'pupil':
        return (lentil.Pupil(amplitude=c(a['A1']), opd=c(a['O1']), pixelscale=DX, focal_length=1.0),
                dict(info, ptype='pupil', z=1.0, ps=DX, amp=a['A1'], opd=a['O1'], mask=a['A1'] != 0))
    if name == 'pupil2':
        return (lentil.Pupil(amplitude=c(a['A2']), opd=c(a['O2']), pixelscale=DX, focal_length=2.0),
                dict(info, ptype='pupil', z=2.0, ps=DX, amp=a['A2'], opd=a['O2']))
    if name in ('seg', 'seg_fit'):
        p = lentil.Pupil(amplitude=c(a['A3']), opd=c(a['Ot'] if name == 'seg_fit' else a['O3']), mask=c(a['seg']),
                         pixelscale=DX, focal_length=1.0)
        opd = a['O3']
        if name == 'seg_fit':
            p = p.fit_tilt()
            opd = np.array(p.opd, copy=True)     # fit_tilt itself is judged by C04; the residual OPD is read back
        return p, dict(info, ptype='pupil', z=1.0, ps=DX, amp=a['A3'], opd=opd, mask=a['seg'].sum(0) > 0,
                       tilt=1 if name == 'seg_fit' else 0)
    if name in ('seg3_fit', 'seg3_fit_b', 'seg3_fit_c'):
        order = {'seg3_fit': [0, 1, 2], 'seg3_fit_b': [1, 0, 2], 'seg3_fit_c': [1, 2, 0]}[name]     # which chip of the chain is listed first
        p = lentil.Pupil(amplitude=c(a['A2']), opd=c(a['O3t']), mask=c(a['seg3'][order]), pixelscale=DX, focal_length=1.0).fit_tilt()
        return p, dict(info, ptype='pupil', z=1.0, ps=DX, amp=a['A2'], opd=np.array(p.opd, copy=True), tilt=1)
    if name == 'seg_scalar':
        return (lentil.Pupil(amplitude=0.5, opd=c(a['O3']), mask=c(a['seg']), pixelscale=DX, focal_length=1.0),
                dict(info, ptype='pupil', z=1.0, ps=DX, amp=0.5, opd=a['O3'], mask=a['seg'].sum(0) > 0))
    if name == 'pupil_fit':
        p = lentil.Pupil(amplitude=c(a['A1']), opd=c(a['Ot']), pixelscale=DX, focal_length=1.0).fit_tilt()
        return p, dict(info, ptype='pupil', z=1.0, ps=DX, amp=a['A1'], opd=np.array(p.opd, copy=True), mask=a['A1'] != 0, tilt=1)
    if name == 'mask_scalar':
        return (lentil.Plane(amplitude=0.5, opd=WL / 8, mask=c(a['M1'])),
                dict(info, amp=0.5, opd=WL / 8, mask=a['M1'] != 0))
    if name == 'mask_scalar_used_rescaled':
        # a plane object with a history: used once, then resampled; what it applies must be what its attributes say now
        p0 = lentil.Plane(amplitude=0.5, opd=WL / 8, mask=c(a['M1']))
        lentil.Wavefront(WL) * p0
        q = p0.rescale(2)
        qm = np.asarray(q.mask)
        return q, dict(info, shape=tuple(qm.shape), amp=float(np.asarray(q.amplitude)), opd=float(np.asarray(q.opd)), mask=qm != 0)
    if name == 'seg_used_rescaled':
        # segmented plane, resampled, then used: it applies what its attributes say now, segment by segment
        p0 = lentil.Pupil(amplitude=c(a['A3']), opd=c(a['O3']), mask=c(a['seg']), pixelscale=DX, focal_length=1.0)
        q = p0.rescale(2)
        qm = np.asarray(q.mask)
        return q, dict(info, ptype='pupil', z=1.0, ps=DX / 2, shape=tuple(qm.shape[-2:]), amp=np.array(q.amplitude, copy=True),
                       opd=np.array(q.opd, copy=True), mask=qm.sum(0) > 0)
    if name == 'subclass_opd':
        # the documented way to model an active element: a subclass whose opd / amplitude properties return the current state,
        # not what the constructor was given
        cur_opd, cur_amp = c(a['O2']), c(a['A2'])

        class Active(lentil.Pupil):
            @property
            def opd(self):
                return cur_opd

            @property
            def amplitude(self):
                return cur_amp
        p = Active(amplitude=np.ones(S), opd=np.zeros(S), pixelscale=DX, focal_length=1.0)
        return p, dict(info, ptype='pupil', z=1.0, ps=DX, amp=a['A2'], opd=a['O2'])
    if name == 'amp_reassigned':
        # the mask was derived from the first amplitude; a new amplitude is assigned afterwards: the mask is still the mask
        holed = c(a['A2']); holed[2, 2] = 0; holed[0, 0] = 0; holed[1, 3] = 0       # support with holes inside its bounding box
        p = lentil.Plane(amplitude=holed)
        p.amplitude = c(a['A2'])
        return p, dict(info, amp=a['A2'], mask=np.asarray(p.mask) != 0)
    if name == 'nomask_rescaled':
        # no explicit mask, then resampled: the spline-interpolated amplitude rings beyond the resampled mask
        holed = c(a['A2']); holed[2, 2] = 0; holed[0, 0] = 0; holed[1, 3] = 0
        q = lentil.Pupil(amplitude=holed, opd=c(a['O1']), pixelscale=DX, focal_length=1.0).rescale(1.5)
        qm = np.asarray(q.mask)
        return q, dict(info, ptype='pupil', z=1.0, ps=DX / 1.5, shape=tuple(qm.shape[-2:]), amp=np.array(q.amplitude, copy=True),
                       opd=np.array(q.opd, copy=True), mask=qm != 0)
    if name == 'opd_zero_sum':
        # an OPD whose samples cancel exactly (antisymmetric about the centre) is still an OPD
        rr_, cc_ = np.meshgrid(np.arange(S[0]) - (S[0] - 1) / 2, np.arange(S[1]) - (S[1] - 1) / 2, indexing='ij')
        oz = (rr_ * 0.25 + cc_ * 0.125) * WL / 4
        return lentil.Plane(amplitude=np.ones(S), opd=oz.copy()), dict(info, amp=np.ones(S), opd=oz)
    if name == 'px_scalar_other':
        # a plane without any array (an attenuator with a piston) still has a sampling that must agree with the wavefront's
        return lentil.Plane(amplitude=0.5, opd=WL / 16, pixelscale=2 * DX), dict(info, shape=(), ps=2 * DX, amp=0.5, opd=WL / 16)
    if name == 'mask_opd':
        return (lentil.Plane(amplitude=0.5, opd=c(a['O1']), mask=c(a['M1'])),
                dict(info, amp=0.5, opd=a['O1'], mask=a['M1'] != 0))
    if name == 'amp_mask':
        return (lentil.Plane(amplitude=c(a['A2']), mask=c(a['M1'])), dict(info, amp=a['A2'], mask=a['M1'] != 0))
    if name == 'opd_only':
        return lentil.Plane(opd=c(a['O2'])), dict(info, opd=a['O2'])
    if name == 'small':
        return lentil.Plane(amplitude=c(a['As']), opd=c(a['Os'])), dict(info, shape=(3, 3), amp=a['As'], opd=a['Os'])
    if name == 'tilt':
        return lentil.Tilt(x=1e-6, y=-2e-6), dict(info, ptype='tilt', shape=(), tilt=1)
    if name == 'image':
        return lentil.Image(amplitude=c(a['A2'])), dict(info, ptype='image', amp=a['A2'])
    if name == 'px_tiny':
        # nanometre-scale sampling: a mismatch far below any sensible absolute tolerance is still a mismatch
        return lentil.Plane(amplitude=c(a['A2']), pixelscale=(2e-9, 7e-9)), dict(info, ps=(2e-9, 7e-9), amp=a['A2'])
    if name == 'px_other':
        return lentil.Plane(amplitude=c(a['A2']), pixelscale=2 * DX), dict(info, ps=2 * DX, amp=a['A2'])
    raise ValueError(name)


PLANES = ['plane0', 'pupil', 'pupil2', 'seg', 'seg_fit', 'seg3_fit', 'seg3_fit_b', 'seg3_fit_c', 'seg_scalar', 'pupil_fit', 'mask_scalar', 'mask_scalar_used_rescaled', 'seg_used_rescaled', 'subclass_opd', 'amp_reassigned', 'nomask_rescaled', 'opd_zero_sum', 'px_scalar_other', 'mask_opd', 'amp_mask', 'opd_only',
          'small', 'tilt', 'image', 'px_other', 'px_tiny']
PROPS = {'prop': dict(shape=(3, 4), prop_shape=None, oversample=2), 'prop_win': dict(shape=(5, 5), prop_shape=(2, 3), oversample=1),
         'prop_small': dict(shape=(6, 6), prop_shape=(2, 2), oversample=1)}


def recentre(field, shape_from, shape_to):
    if shape_from == ():
        return np.full(shape_to, complex(field))
    if tuple(shape_from) == tuple(shape_to):
        return np.array(field, copy=True)
    out = np.zeros(shape_to, dtype=complex)
    for i in range(shape_from[0]):
        for j in range(shape_from[1]):
            r = i - shape_from[0] // 2 + shape_to[0] // 2
            c = j - shape_from[1] // 2 + shape_to[1] // 2
            if 0 <= r < shape_to[0] and 0 <= c < shape_to[1]:
                out[r, c] = field[i, j]
    return out


class St:
    """implementation wavefront + reference model, side by side"""
    def __init__(self, w, m, note=None):
        self.w, self.m, self.note = w, m, note      # note: violation recorded when this state was created
        self.tainted = False
        self.refused = False


INIT_PS = {'fresh': None, 'with_pixelscale': DX, 'tiny_pixelscale': 2e-9}


def model_init(init):
    return dict(shape=(), field=1 + 0j, wl=WL, z=np.inf, ps=INIT_PS[init], ptype='none', tilt=0)


def build(init, seed=0):
    import lentil
    w = lentil.Wavefront(WL) if init == 'fresh' else lentil.Wavefront(WL, pixelscale=INIT_PS[init])
    return St(w, model_init(init))


def enabled(st):
    m = st.m
    if st.tainted:
        return []
    ev = []
    for p in PLANES:
        pt = {'pupil': 'pupil', 'pupil2': 'pupil', 'seg': 'pupil', 'seg_fit': 'pupil', 'seg_used_rescaled': 'pupil', 'seg3_fit': 'pupil', 'seg3_fit_b': 'pupil', 'seg3_fit_c': 'pupil', 'seg_scalar': 'pupil', 'pupil_fit': 'pupil', 'tilt': 'tilt',
              'image': 'image'}.get(p, 'none')
        if (m['ptype'], pt) in MUL_TABLE:
            ev.append(p)
    if m['ptype'] in ('pupil', 'image') and np.isfinite(m['z']) and m['shape'] != () and m['ps'] is not None:
        ev += list(PROPS)
    return ev


def wdig(w):
    h = hashlib.blake2b(digest_size=10)
    h.update(repr((str(w.ptype), tuple(w.shape), w.wavelength, w.focal_length,
                   None if w.pixelscale is None else tuple(np.asarray(w.pixelscale).tolist()))).encode())
    for f in w.data:
        h.update(np.asarray(f.data).tobytes())
        h.update(repr((tuple(np.asarray(f.offset).tolist()), len(f.tilt), np.asarray(f.data).shape)).encode())
    return h.hexdigest()


def pdig(p):
    h = hashlib.blake2b(digest_size=10)
    for a in (p.amplitude, p.opd, p.mask):
        h.update(np.asarray(a).tobytes())
    h.update(repr((str(p.ptype), len(p.tilt), p.pixelscale)).encode())
    return h.hexdigest()


def step(st, ev, seed, acc, hist):
    """real step + model step.  Returns the successor state."""
    import lentil
    m = dict(st.m)
    case = dict(hist, kind='chain')
    w0 = wdig(st.w)
    if ev in PROPS:
        kw = PROPS[ev]
        try:
            out = lentil.propagate_dft(st.w, DU, **kw)
        except Exception as e:
            acc.violation(f'{ev}:raises:{type(e).__name__}', case, repr(e))
            s2 = St(st.w, st.m); s2.tainted = True
            return s2
        os_ = kw['oversample']
        shape_out = (kw['shape'][0] * os_, kw['shape'][1] * os_)
        if m['field'] is not None and m['tilt'] == 0:
            ps = op.pair(m['ps'])
            alpha = op.alpha_exact(ps, DU, WL, m['z'], os_)
            ref = rm.dft2(m['field'], alpha, shape=shape_out, unitary=True)
            pw = kw['prop_shape'] or kw['shape']
            win = op.centred_window(shape_out, (pw[0] * os_, pw[1] * os_))
            m['field'] = np.where(win, ref, 0)
        else:
            m['field'] = None
        m.update(shape=shape_out, ps=DU / os_, ptype='image' if m['ptype'] == 'pupil' else 'pupil')
        if wdig(st.w) != w0:
            acc.violation(f'{ev}:mutates-wavefront', case, 'propagation changed its input wavefront')
        return St(out, m)
    plane, info = make_plane(ev, seed)
    p0 = pdig(plane)
    # pixelscale reconciliation
    a, b = info['ps'], m['ps']
    inconsistent = a is not None and b is not None and not np.allclose(op.pair(a), op.pair(b), rtol=0, atol=0)
    try:
        out = st.w * plane
        exc = None
    except Exception as e:
        out, exc = None, e
    if inconsistent:
        s2 = St(st.w, st.m); s2.refused = True
        if not isinstance(exc, ValueError):
            acc.violation('pixelscale:not-refused', case, f'inconsistent pixel scales {a} vs {b}: got {exc!r} / result')
            s2.tainted = True
        if wdig(st.w) != w0 or pdig(plane) != p0:
            acc.violation('pixelscale:refusal-mutates', case, 'refused multiplication changed an operand')
        return s2
    if exc is not None:
        acc.violation(f'mul:{ev}:raises:{type(exc).__name__}', case, repr(exc))
        s2 = St(st.w, st.m); s2.tainted = True
        return s2
    if wdig(st.w) != w0 or pdig(plane) != p0:
        acc.violation(f'mul:{ev}:mutates-operand', case, 'multiplication changed an operand')
    # model step
    pshape = info['shape']
    newshape = m['shape'] if pshape == () else pshape
    if newshape != ():
        ph = np.ones(newshape, dtype=complex) * info['amp'] * np.exp(2j * np.pi * np.asarray(info['opd']) / WL)
        if info['mask'] is not None:
            ph = ph * info['mask']
        if pshape == ():
            ph = complex(np.asarray(info['amp']) * np.exp(2j * np.pi * np.asarray(info['opd']) / WL))
        if m['field'] is not None:
            m['field'] = recentre(m['field'], m['shape'], newshape) * ph
    else:
        m['field'] = m['field'] * complex(np.asarray(info['amp']) * np.exp(2j * np.pi * np.asarray(info['opd']) / WL))
    m['shape'] = newshape
    m['ps'] = a if a is not None else b
    m['ptype'] = MUL_TABLE[(m['ptype'], info['ptype'])]
    if info['z'] is not None:
        m['z'] = info['z']
    m['tilt'] += info['tilt']
    return St(out, m)


def check(st, hist, acc):
    if st.tainted:
        return
    w, m = st.w, st.m
    ev = hist['events'][-1] if hist['events'] else 'init'
    case = dict(hist, kind='chain')
    bad = False
    # metadata
    if w.wavelength != m['wl']:
        acc.violation(f'meta:{ev}:wavelength', case, f'{w.wavelength} != {m["wl"]}'); bad = True
    if not (w.focal_length == m['z']):
        acc.violation(f'meta:{ev}:focal_length', case, f'{w.focal_length} != {m["z"]}'); bad = True
    if (w.pixelscale is None) != (m['ps'] is None) or (m['ps'] is not None and not np.allclose(
            np.broadcast_to(w.pixelscale, (2,)), op.pair(m['ps']), rtol=1e-15, atol=0)):
        acc.violation(f'meta:{ev}:pixelscale', case, f'{w.pixelscale} != {m["ps"]}'); bad = True
    if str(w.ptype) != m['ptype']:
        acc.violation(f'meta:{ev}:ptype', case, f'{w.ptype} != {m["ptype"]} (C08 decides the table)'); bad = True
    if tuple(w.shape) != tuple(m['shape']):
        # the statement speaks about the field on the (infinite) plane, not about the array that carries it: a different
        # array shape is accepted when no non-zero model sample is lost; the model then follows the implementation's grid
        if len(tuple(w.shape)) == 2 and len(tuple(m['shape'])) == 2 and m['field'] is not None:
            moved = recentre(m['field'], m['shape'], tuple(w.shape))
            back = recentre(moved, tuple(w.shape), m['shape'])
            if rm.maxerr(back, m['field']) == 0:
                m['field'], m['shape'] = moved, tuple(w.shape)
                acc.cls('shape-adopted')
        if tuple(w.shape) != tuple(m['shape']):
            acc.violation(f'mul:{ev}:shape', case, f'wavefront shape {tuple(w.shape)} cannot hold the model field of shape {tuple(m["shape"])}')
            bad = True
    # views
    try:
        fld = w.field
        inten = w.intensity
    except Exception as e:
        acc.violation(f'view:{ev}:raises:{type(e).__name__}', case, f'.field/.intensity raised {e!r}')
        st.tainted = True
        return
    scale = 1 + (np.max(np.abs(fld)) if np.size(fld) else 0)
    if m['field'] is not None and not bad:
        err = rm.maxerr(np.asarray(fld), np.asarray(m['field']))
        if not err <= 1e-9 * scale:
            acc.violation(f'mul:{ev}:field', case, f'field differs from the pointwise-phasor model by {err:.3e}')
            bad = True
    if np.ndim(fld) == 2:
        val, cnt, outside = op.render(w)
        if rm.maxerr(fld, val) > 1e-12 * scale:
            acc.violation('view:field-vs-render', case, f'.field differs from the sum of its Fields by {rm.maxerr(fld, val):.3e}')
        if cnt.max(initial=0) > 1:
            acc.cls('overlapping-fields')
            if len(w.data) >= 3:
                import lentil.extent as le
                ex = [f.extent for f in w.data]
                pairs = [(i, j) for i in range(len(ex)) for j in range(i + 1, len(ex)) if le.intersect(ex[i], ex[j])]
                if 0 < len(pairs) < len(ex) * (len(ex) - 1) // 2:
                    acc.cls('chain-overlapping-fields')
        iref = np.abs(val) ** 2
    else:
        iref = np.abs(fld) ** 2
    if rm.maxerr(np.asarray(inten), iref) > 1e-12 * scale ** 2:
        acc.violation('view:intensity', case, f'intensity != |field|^2, max diff {rm.maxerr(np.asarray(inten), iref):.3e}')
        bad = True
    if np.ndim(fld) == 2:
        for prefill in (False, True):
            for wt in (1, 0.5, 3, -1):
                out0 = np.zeros(fld.shape) + (0.25 * (1 + np.arange(fld.size).reshape(fld.shape)) if prefill else 0)
                buf = out0.copy()
                try:
                    ret = w.insert(buf, weight=wt)
                except Exception as e:
                    acc.violation(f'insert:raises:{type(e).__name__}', case, repr(e))
                    break
                if rm.maxerr(ret - out0, wt * iref) > 1e-12 * scale ** 2 * 3 or rm.maxerr(buf - out0, wt * iref) > 1e-12 * scale ** 2 * 3:
                    acc.violation('insert:value', dict(case, weight=wt, prefill=prefill),
                                  f'insert added something other than weight*intensity (max diff {rm.maxerr(ret - out0, wt * iref):.3e})')
        # larger accumulation target: centre-aligned embedding
        big = (fld.shape[0] + 2, fld.shape[1] + 1)
        buf = np.zeros(big)
        try:
            ret = w.insert(buf, weight=2)
            exp = np.real(recentre(iref.astype(complex), fld.shape, big)) * 2
            if rm.maxerr(ret, exp) > 1e-12 * scale ** 2 * 2:
                acc.violation('insert:larger-target', case, 'insert into a larger array is not the centre-aligned embedding')
        except Exception as e:
            acc.violation(f'insert:larger-target:raises:{type(e).__name__}', case, repr(e))
        # targets that happen to have the shape of one of the wavefront's own Fields, and smaller ones: the centre-aligned crop
        shapes = {tuple(np.asarray(f.data).shape) for f in w.data if np.ndim(f.data) == 2} | {(max(1, fld.shape[0] - 2), max(1, fld.shape[1] - 1))}
        for tshape in sorted(shapes):
            if tshape == tuple(fld.shape):
                continue
            buf = np.zeros(tshape)
            try:
                ret = w.insert(buf, weight=2)
                exp = np.real(recentre(iref.astype(complex), fld.shape, tshape)) * 2
                if rm.maxerr(ret, exp) > 1e-12 * scale ** 2 * 2:
                    acc.violation('insert:other-target-shape', dict(case, target=tshape), f'insert into a {tshape} array is not the centre-aligned crop / embedding of the {tuple(fld.shape)} intensity')
            except Exception as e:
                acc.violation(f'insert:other-target-shape:raises:{type(e).__name__}', dict(case, target=tshape), repr(e))
    if bad:
        st.tainted = True
    acc.outcomes.add(f'{m["ptype"]}-{min(len(w.data), 4)}fields-{tuple(w.shape)}-tilt{min(m["tilt"], 2)}')
    acc.cls('nfields=%d' % min(len(w.data), 3))
    if m['field'] is None:
        acc.cls('model-unknown(tilted-propagation)')


def canon(st):
    m = st.m
    return (wdig(st.w), m['ptype'], m['tilt'], st.tainted, repr(m['z']))


def t_bfs(arg, acc):
    seed, depth = arg['seed'], arg['depth']
    init, first = arg['init'], arg['first']
    s0 = build(init, seed)
    if first not in enabled(s0):
        return
    h1 = {'init': init, 'events': [first]}
    acc.transitions += 1
    s1 = step(s0, first, seed, acc, h1)

    def stepf(st, ev):
        h = {'init': init, 'events': st.hist + [ev]}
        n = step(st, ev, seed, acc, h)
        n.hist = h['events']
        return n

    s1.hist = [first]

    def buildf(_):
        return s1

    def checkf(st, hist, acc_):
        check(st, {'init': init, 'events': st.hist}, acc_)

    engine.bfs([{'init': init, 'first': first}], enabled, buildf, stepf, canon, checkf, depth - 1, acc, label='chain')


def run(tier, seed, acc, procs=None):
    depth = 4 if tier == 'quick' else 5
    tasks = []
    for init in ('fresh', 'with_pixelscale', 'tiny_pixelscale'):
        s0 = build(init, seed)
        check(s0, {'init': init, 'events': []}, acc)
        acc.states += 1
        for ev in enabled(s0):
            tasks.append(('t_bfs', {'seed': seed, 'depth': depth if init != 'tiny_pixelscale' else 2, 'init': init, 'first': ev}))
    tasks += histories.tasks_for(PID, seed)        # pairwise call histories over the operations this property is anchored in
    engine.run_parallel(MOD, tasks, acc, procs)
    return {
        'rule': 'breadth-first search over chains of plane multiplications (14 plane kinds: default, pupils, segmented with '
                'overlapping boxes, scalar amplitude with mask, OPD-only, smaller array, tilt, image, other pixel scale, fit_tilt-ed '
                f'variants) and 2 propagations, depth {depth}, from a fresh wavefront and one with a pixel scale; the model state is '
                'a dense complex array plus metadata; every reached state is checked (field = model, intensity = |field|^2, '
                'insert with 3 weights into zero/prefilled/larger targets, metadata); states de-duplicated on the implementation '
                'digest (every Field: data bytes, offset, tilt count) plus model metadata.',
        'bounds': {'depth': depth, 'planes': PLANES, 'propagations': list(PROPS), 'array_shape': S},
        'assumptions': ['events are enabled per the documented ptype table (C08 decides the table itself)',
                        'fit_tilt residual OPD is read back from the plane (C04 decides fit_tilt)',
                        'after propagating a wavefront that carries tilt the model field is unknown: only view-consistency is checked there',
                        'a state whose implementation disagrees with the model is reported once and not expanded further'],
        'require': {},
        'expect': {'overlapping-fields': 5, 'nfields=2': 10, 'chain-overlapping-fields': 2},
    }


def replay(case, acc):
    if case.get('kind') == 'histop':
        import os as _os
        return histories.chk_case(case, acc, int(_os.environ.get('VERIF_SEED', '0') or 0))
    seed = int(os.environ.get('VERIF_SEED', '0') or 0)
    st = build(case['init'], seed)
    check(st, {'init': case['init'], 'events': []}, acc)
    done = []
    for ev in case['events']:
        if st.tainted:
            return
        if ev not in enabled(st):
            acc.errors.append(f'replay: event {ev} not enabled after {done}')
            return
        done.append(ev)
        st = step(st, ev, seed, acc, {'init': case['init'], 'events': list(done)})
        check(st, {'init': case['init'], 'events': list(done)}, acc)
