"""C02 -- far-field propagation puts the Fraunhofer field on the right output samples."""
import os

import numpy as np

from .. import engine, optics as op, refmodel as rm
from .. import histories
from ..histories import t_callhist, t_cross      # worker tasks of the history harness (mc/histories.py)

PID = 'C02'
MOD = 'mc.props.c02'

SUPPORTS = ['full', 'offcentre', 'block', 'twoplanes']
WLZ = [(op.WL, 1.0), (3 * 2.0 ** -22, 2.0)]
OVERSAMPLES = [1, 2, 3]


def pupil_shapes(tier):
    s = [(3, 3), (4, 4), (4, 5), (5, 4), (5, 5)]
    if tier != 'quick':
        s += [(6, 7), (7, 6), (2, 7)]
    return s


def out_shapes(tier):
    s = [None, (4, 4), (5, 5), (4, 7)]
    if tier != 'quick':
        s += [3, (6, 5)]
    return s


def prop_shapes(shape):
    out = [None]
    for p in [(1, 1), (2, 3), (3, 2), (shape[0] - 1, shape[1]), (shape[0], 2), (3, 3), 2]:
        pp = op.pair(p)
        if 1 <= pp[0] <= shape[0] and 1 <= pp[1] <= shape[1] and p not in out and tuple(pp) != tuple(shape):
            out.append(p)
    return out


def masks(shape_out, tier):
    R, C = shape_out
    out = []
    rs = sorted({0, R // 3, R // 2})
    cs = sorted({0, C // 3, C // 2})
    for r0 in rs:
        for r1 in sorted({r0, R // 2, R - 1}):
            if r1 < r0:
                continue
            for c0 in cs:
                for c1 in sorted({c0, C // 2, C - 1}):
                    if c1 < c0:
                        continue
                    out.append(('rect', [r0, r1, c0, c1]))
    out.append(('L', None))
    out.append(('two', None))
    out.append(('weights', None))
    if tier == 'quick':
        out = out[::2] + out[-3:]
    # de-duplicate
    seen, res = set(), []
    for m in out:
        k = repr(m)
        if k not in seen:
            seen.add(k); res.append(m)
    return res


def build_mask(spec, shape_out):
    R, C = shape_out
    kind, arg = spec
    m = np.zeros((R, C))
    if kind == 'rect':
        r0, r1, c0, c1 = arg
        m[r0:r1 + 1, c0:c1 + 1] = 1
    elif kind == 'L':
        m[R // 4: R - 1, C // 4] = 1
        m[R - 2, C // 4: C - 1] = 1
    elif kind == 'two':
        m[0, C - 1] = 1
        m[R - 1, C // 2] = 1
    elif kind == 'weights':            # non-binary positive mask: support only matters
        m[R // 2:, : C // 2 + 1] = 0.25
        m[R // 2, 0] = 3.0
    return m


def make_wavefront(cfg, seed):
    import lentil
    shape = tuple(cfg['pupil'])
    two = cfg['support'] == 'twoplanes'
    amp, opd, mask = op.pupil_arrays(shape, 'offcentre' if two else cfg['support'], seed, tag=shape[0] * 10 + shape[1])
    wl, z = cfg['wl'], cfg['z']
    dx = cfg['dx'] if np.ndim(cfg['dx']) == 0 else tuple(cfg['dx'])
    if cfg['dir'] == 'p2i':
        w = lentil.Wavefront(wl) * lentil.Pupil(amplitude=amp.copy(), opd=opd.copy(), pixelscale=dx, focal_length=z)
    else:
        w = lentil.Wavefront(wl, focal_length=z) * lentil.Image(amplitude=amp.copy(), opd=opd.copy(), pixelscale=dx)
    fin = op.phasor(amp, opd, wl)
    if two:
        # "passed any planes": a second, narrower plane whose support starts at another row and column
        amp2 = rm.generic_real(shape, seed, tag=77, lo=0.5, hi=1.0)
        if shape[0] > 2:               # (a 2-row pupil keeps both rows: the product of the two supports must not be empty)
            amp2[-1, :] = 0
        amp2[:, :2] = 0
        opd2 = rm.generic_real(shape, seed, tag=78, lo=-0.2, hi=0.2) * wl
        cls = lentil.Pupil if cfg['dir'] == 'p2i' else lentil.Image
        kw = dict(focal_length=z) if cfg['dir'] == 'p2i' else {}
        w = w * cls(amplitude=amp2.copy(), opd=opd2.copy(), pixelscale=dx, **kw)
        fin = fin * op.phasor(amp2, opd2, wl)
    return w, fin


def chk(case, acc, seed, ref=None):
    import lentil
    cfg = case['cfg']
    w, fin = make_wavefront(cfg, seed)
    os_ = cfg['os']
    du = cfg['du'] if np.ndim(cfg['du']) == 0 else tuple(cfg['du'])
    if ref is None:
        alpha = op.alpha_exact(cfg['dx'], du, cfg['wl'], cfg['z'], os_)
        ref = op.RefPlane(fin, alpha, half=14 if max(cfg['pupil']) <= 5 else 16)
    shape = case['shape']
    shape = tuple(shape) if isinstance(shape, list) else shape
    pshape = case['prop_shape']
    pshape = tuple(pshape) if isinstance(pshape, list) else pshape
    base = tuple(cfg['pupil']) if shape is None else op.pair(shape)
    shape_out = (base[0] * os_, base[1] * os_)
    mspec = case['mask']
    mask = None if mspec is None else build_mask((mspec[0], mspec[1]), shape_out)
    # input-plane field as the implementation sees it
    if rm.maxerr(w.field, fin) > 1e-12:
        acc.violation('prop:input-field', case, 'wavefront field before propagation differs from amp*exp(2 pi i opd/wl)')
    try:
        out = lentil.propagate_dft(w, pixelscale=du, shape=shape, prop_shape=pshape, oversample=os_, mask=mask)
        val, cnt, outside = op.render(out)
    except Exception as e:
        acc.violation(f'prop:raises:{type(e).__name__}', case, repr(e))
        acc.case(case, outcome='raise')
        return
    # expected evaluated window
    pw = base if pshape is None else op.pair(pshape)
    window = op.centred_window(shape_out, (pw[0] * os_, pw[1] * os_))
    if mask is not None:
        window &= op.bbox_mask(mask)
    evaluated = cnt > 0
    kind = 'mask' if mask is not None else ('win' if pshape is not None else 'full')
    if tuple(out.shape) != shape_out:
        acc.violation('prop:meta:shape', case, f'output shape {tuple(out.shape)} != {shape_out}')
    elif not np.array_equal(evaluated, window):
        acc.violation(f'prop:window:{kind}', case,
                      f'evaluated samples differ from the expected window: got rows/cols '
                      f'{np.argwhere(evaluated).min(0).tolist() if evaluated.any() else None}..'
                      f'{np.argwhere(evaluated).max(0).tolist() if evaluated.any() else None}, expected '
                      f'{np.argwhere(window).min(0).tolist() if window.any() else None}..'
                      f'{np.argwhere(window).max(0).tolist() if window.any() else None}')
    else:
        if cnt.max(initial=0) > 1 or outside:
            acc.violation('prop:window:double', case, f'samples covered {cnt.max()} times / {outside} outside the array')
        exp = np.where(window, ref.on_grid(shape_out), 0)
        tol = 1e-9 * (1 + np.sum(np.abs(fin)))
        err = rm.maxerr(val, exp)
        if not err <= tol:
            acc.violation(f'prop:value:{kind}', case, f'max |field - Fraunhofer sum| on evaluated samples = {err:.3e}')
        fld = out.field
        if rm.maxerr(fld, exp) > tol:
            acc.violation(f'prop:field-view:{kind}', case, f'Wavefront.field differs from reference by {rm.maxerr(fld, exp):.3e}')
        if np.any(fld[~window] != 0):
            acc.violation('prop:outside-nonzero', case, 'non-zero sample outside the evaluated window')
        I = out.intensity
        if rm.maxerr(I, np.abs(exp) ** 2) > tol * (1 + np.max(np.abs(exp))):
            acc.violation(f'prop:intensity:{kind}', case, 'Wavefront.intensity differs from |reference|^2')
    # metadata
    if out.wavelength != cfg['wl']:
        acc.violation('prop:meta:wavelength', case, f'{out.wavelength} != {cfg["wl"]}')
    if out.focal_length != cfg['z']:
        acc.violation('prop:meta:focal_length', case, f'{out.focal_length} != {cfg["z"]}')
    dup = op.pair(du)
    if not np.allclose(np.broadcast_to(out.pixelscale, (2,)), (dup[0] / os_, dup[1] / os_), rtol=1e-15, atol=0):
        acc.violation('prop:meta:pixelscale', case, f'{out.pixelscale} != du/oversample')
    want = lentil.image if cfg['dir'] == 'p2i' else lentil.pupil
    if out.ptype != want:
        acc.violation('prop:meta:ptype', case, f'{out.ptype} != {want}')
    acc.cls('k:' + kind)
    acc.cls('empty-window' if not window.any() else 'nonempty-window')
    acc.case(case, nontrivial=bool(window.any()), outcome=f'{kind}-{int(window.sum() > 0)}-{cfg["dir"]}')


def chk_round(case, acc, seed):
    """two legs without a plane in between: pupil -> image (oversample o) -> back; the second leg must take the first leg's
    output sampling du/o as its input sampling"""
    import lentil
    cfg = case['cfg']
    w, fin = make_wavefront(dict(cfg, dir='p2i'), seed)
    os_ = cfg['os']
    du = cfg['du'] if np.ndim(cfg['du']) == 0 else tuple(cfg['du'])
    shape1 = tuple(case['shape1'])
    shape_out = (shape1[0] * os_, shape1[1] * os_)
    ref1 = op.RefPlane(fin, op.alpha_exact(cfg['dx'], du, cfg['wl'], cfg['z'], os_), half=max(shape_out) // 2 + 2).on_grid(shape_out)
    try:
        o1 = lentil.propagate_dft(w, du, shape=shape1, oversample=os_)
        du2 = op.DX * 0.75
        o2 = lentil.propagate_dft(o1, du2, shape=tuple(case['shape2']), oversample=case['os2'])
        val, cnt, _ = op.render(o2)
    except Exception as e:
        acc.violation(f'prop:roundtrip:raises:{type(e).__name__}', case, repr(e))
        acc.case(case, outcome='raise')
        return
    dup = op.pair(du)
    alpha2 = op.alpha_exact((dup[0] / os_, dup[1] / os_), du2, cfg['wl'], cfg['z'], case['os2'])
    s2 = (case['shape2'][0] * case['os2'], case['shape2'][1] * case['os2'])
    ref2 = rm.dft2(ref1, alpha2, shape=s2, unitary=True)
    tol = 1e-8 * (1 + np.sum(np.abs(ref1)))
    if not np.all(cnt == 1) or rm.maxerr(val, ref2) > tol:
        acc.violation('prop:roundtrip:second-leg-sampling', case,
                      f'image -> pupil leg after an oversample-{os_} first leg differs from the Fraunhofer sum with input sampling du/oversample by {rm.maxerr(val, ref2):.3e}')
    if o2.ptype != lentil.pupil:
        acc.violation('prop:meta:ptype', case, f'{o2.ptype}')
    # the same two legs with tilt metadata in front of the first: the first leg displaces the image, and that image -- nothing
    # else -- is what the second leg transforms (a twin wavefront holding the first leg's field and no metadata gives the same)
    try:
        from lentil.field import Field
        dupx = op.pair(du)
        ang = (1.3 * dupx[0] / os_ / cfg['z'], -0.6 * dupx[1] / os_ / cfg['z'])
        wt, _ = make_wavefront(dict(cfg, dir='p2i'), seed)
        wt = wt * lentil.Tilt(x=ang[0], y=ang[1])
        o1t = lentil.propagate_dft(wt, du, shape=shape1, oversample=os_)
        o2t = lentil.propagate_dft(o1t, du2, shape=tuple(case['shape2']), oversample=case['os2'])
        twin = lentil.Wavefront(o1t.wavelength, pixelscale=o1t.pixelscale, focal_length=o1t.focal_length, ptype=o1t.ptype)
        twin.data = [Field(data=np.array(o1t.field, copy=True))]
        twin.shape = tuple(o1t.shape)
        o2w = lentil.propagate_dft(twin, du2, shape=tuple(case['shape2']), oversample=case['os2'])
        a_, b_ = np.asarray(o2t.field), np.asarray(o2w.field)
        if a_.shape != b_.shape or rm.maxerr(a_, b_) > 1e-9 * (1 + np.sum(np.abs(b_))):
            acc.violation('prop:roundtrip:tilt-applied-again', case, f'after a tilted first leg the second leg differs from the transform of the first leg\'s field by {rm.maxerr(a_, b_):.3e}')
        acc.cls('roundtrip:tilted')
    except Exception as e:
        acc.violation(f'prop:roundtrip:tilted:raises:{type(e).__name__}', case, repr(e))
    acc.cls('roundtrip')
    acc.case(case, outcome='roundtrip')


def t_cfg(arg, acc):
    tier, seed = arg['tier'], arg['seed']
    pupil, support, dxi, dui = tuple(arg['pupil']), arg['support'], arg['dx'], arg['du']
    dx = [op.DX, op.DX2][dxi]
    du = [op.DU, op.DU2][dui]
    for (wl, z) in WLZ:
        for os_ in OVERSAMPLES:
            for d in ('p2i', 'i2p'):
                acc.states += 1
                cfg = {'pupil': pupil, 'support': support, 'dx': dx, 'du': du, 'wl': wl, 'z': z, 'os': os_, 'dir': d}
                if d == 'p2i':
                    for sh1 in ((4, 4), (5, 4)):
                        for os2 in (1, 2):
                            acc.transitions += 1
                            chk_round({'kind': 'round', 'cfg': cfg, 'shape1': sh1, 'shape2': (4, 5), 'os2': os2}, acc, seed)
                _, fin = make_wavefront(cfg, seed)
                ref = op.RefPlane(fin, op.alpha_exact(dx, du, wl, z, os_), half=14 if max(pupil) <= 5 else 16)
                for shape in out_shapes(tier):
                    base = pupil if shape is None else op.pair(shape)
                    shape_out = (base[0] * os_, base[1] * os_)
                    ps = prop_shapes(base)
                    for p in ps:
                        acc.transitions += 1
                        chk({'kind': 'prop', 'cfg': cfg, 'shape': shape, 'prop_shape': p, 'mask': None}, acc, seed, ref)
                    for mk in masks(shape_out, tier):
                        for p in (None, ps[1] if len(ps) > 1 else None, (2, 3) if base[0] >= 2 and base[1] >= 3 else None):
                            acc.transitions += 1
                            chk({'kind': 'prop', 'cfg': cfg, 'shape': shape, 'prop_shape': p, 'mask': list(mk)},
                                acc, seed, ref)


def run(tier, seed, acc, procs=None):
    tasks = []
    for p in pupil_shapes(tier):
        for s in SUPPORTS:
            for dxi in (0, 1):
                for dui in (0, 1):
                    acc.transitions += 1
                    tasks.append(('t_cfg', {'tier': tier, 'seed': seed, 'pupil': p, 'support': s, 'dx': dxi, 'du': dui}))
    acc.states += 1
    tasks += histories.tasks_for(PID, seed)        # pairwise call histories over the operations this property is anchored in
    engine.run_parallel(MOD, tasks, acc, procs)
    return {
        'rule': 'cross product pupil shape x support x dx (scalar/per-axis) x du (scalar/per-axis) x (wavelength, focal '
                'length) x oversample x direction x output shape x prop_shape x mask (rectangles on a stride, L, two '
                'pixels, weighted). Non-trivial: the expected evaluated window is non-empty.',
        'bounds': {'pupil_shapes': pupil_shapes(tier), 'supports': SUPPORTS, 'oversample': OVERSAMPLES,
                   'out_shapes': [str(s) for s in out_shapes(tier)]},
        'assumptions': ['reference Fraunhofer sum with exact rational phase (mc/refmodel.py), unitary scaling',
                        'evaluated window = centred prop window clipped to the output, intersected with the mask bounding box',
                        'tolerance 1e-9*(1+sum|f|)'],
        'require': {'roundtrip': 100, 'k:full': 100, 'k:win': 100, 'k:mask': 1000, 'nonempty-window': 1000},
    }


def replay(case, acc):
    if case.get('kind') == 'histop':
        import os as _os
        return histories.chk_case(case, acc, int(_os.environ.get('VERIF_SEED', '0') or 0))
    seed = int(os.environ.get('VERIF_SEED', '0') or 0)
    (chk_round if case['kind'] == 'round' else chk)(case, acc, seed)
