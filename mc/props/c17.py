"""C17 -- resampling a plane changes its sampling, not its optics."""
import hashlib
import math
import os

import numpy as np

from .. import engine, optics as op, refmodel as rm
from .. import histories
from ..histories import t_callhist, t_cross      # worker tasks of the history harness (mc/histories.py)

PID = 'C17'
MOD = 'mc.props.c17'
WL = 500e-9
DX = 1e-3
Z = 10.0
SCALES = [0.5, 0.75, 1, 1.25, 1.5, 2, 2.5, 3, 4]


def shapes(tier):
    return [(24, 24), (25, 25), (24, 30)] + ([(31, 26), (32, 32)] if tier != 'quick' else [])


def plane(shape, seg, seed, pixelscale=DX, amp_kind='real', cls='Pupil'):
    import lentil
    rr, cc = np.meshgrid(np.arange(shape[0]) - shape[0] // 2, np.arange(shape[1]) - shape[1] // 2, indexing='ij')
    sig = min(shape) / 8.0
    k = 1 + 0.03 * (seed % 8)
    amp = np.exp(-(rr ** 2 + (cc * k) ** 2) / (2 * sig ** 2))
    x, y = rr / (min(shape) / 2), cc / (min(shape) / 2)
    opd = (0.08 * x + 0.05 * y + 0.06 * (x * x - y * y) + 0.04 * x * y) * WL * k
    if amp_kind == 'complex':                 # a complex transmission whose phase is not symmetric under transposition
        amp = amp * np.exp(1j * (0.9 * x - 0.5 * y + 0.7 * x * y * y))
    if seg == 'mono':
        mask = np.ones(shape)
    elif seg == 'intmask':
        mask = np.ones(shape, dtype=int)
    else:
        mask = np.zeros((2,) + shape)
        mask[0][:, :shape[1] // 2] = 1
        mask[1][:, shape[1] // 2:] = 1
    if amp_kind == 'scalar':
        # the aperture is given by the mask alone: unit transmission, an OPD map
        mask = mask * (amp > 0.05) if mask.ndim == 2 else mask * (amp > 0.05)[None]
        amp = 1.0
    if cls == 'Image':
        return lentil.Image(amplitude=amp, opd=opd, mask=mask, pixelscale=pixelscale)
    if cls == 'Plane':
        return lentil.Plane(amplitude=amp, opd=opd, mask=mask, pixelscale=pixelscale)
    return lentil.Pupil(amplitude=amp, opd=opd, mask=mask, pixelscale=pixelscale, focal_length=Z)


def pdig(p):
    h = hashlib.blake2b(digest_size=10)
    for a in (p.amplitude, p.opd, p.mask):
        h.update(np.ascontiguousarray(a).tobytes())
        h.update(repr(np.asarray(a).shape).encode())
    h.update(repr((p.pixelscale, str(p.ptype), getattr(p, 'focal_length', None), len(p.tilt))).encode())
    return h.hexdigest()


def psf(p, dx=DX):
    import lentil
    if str(p.ptype) == 'image':
        w = lentil.Wavefront(WL, focal_length=Z) * p
    elif str(p.ptype) == 'none':
        w = lentil.Wavefront(WL) * lentil.Pupil(focal_length=Z) * p
    else:
        w = lentil.Wavefront(WL) * p
    du = WL * Z / (24 * dx) / 3            # fixed output sampling: depends on the original aperture size 24*dx only
    return lentil.propagate_dft(w, du, shape=(16, 16), oversample=2).intensity


def second_moment(amp, ps):
    a2 = np.abs(amp) ** 2
    R, C = a2.shape
    r = (np.arange(R) - (R // 2)) * ps[0]
    c = (np.arange(C) - (C // 2)) * ps[1]
    tot = a2.sum()
    mr = (a2.sum(1) * r).sum() / tot
    mc = (a2.sum(0) * c).sum() / tot
    return math.sqrt((a2.sum(1) * (r - mr) ** 2).sum() / tot), math.sqrt((a2.sum(0) * (c - mc) ** 2).sum() / tot)


def chk(case, acc, seed):
    shape, seg, s, via = tuple(case['shape']), case['seg'], case['scale'], case['via']
    DX = case.get('dx', globals()['DX'])           # the plane's own sampling: millimetres by default, microns / nanometres as variants
    p = plane(shape, seg, seed, pixelscale=DX, amp_kind=case.get('amp', 'real'), cls=case.get('cls', 'Pupil'))
    if case.get('fit_first'):
        p = p.fit_tilt()                 # the plane carries fitted tilt (unequal in x and y) when it is resampled
    if case.get('used_first'):
        psf(p, DX)                      # the plane has already been used in a propagation before it is resampled
    d0 = pdig(p)
    try:
        q = p.rescale(s) if via == 'rescale' else p.resample(DX / s)
    except Exception as e:
        acc.violation(f'{via}:raises:{type(e).__name__}', case, repr(e))
        acc.case(case, outcome='raise')
        return
    kind = 'down' if s < 1 else ('identity' if s == 1 else 'up')
    if pdig(p) != d0:
        acc.violation(f'{via}:original-modified', case, 'the original plane changed')
    if q is p:
        acc.violation(f'{via}:returns-self', case, 'returned the plane itself')
    # exact bookkeeping
    want_ps = (DX / s, DX / s)
    if q.pixelscale is None or not np.allclose(q.pixelscale, want_ps, rtol=1e-14, atol=0):
        acc.violation(f'{via}:pixelscale:{kind}', case, f'pixel scale {q.pixelscale} != {want_ps} (= dx / s)')
    want_shape = (math.ceil(shape[0] * s), math.ceil(shape[1] * s))
    for name, arr in (('amplitude', q.amplitude), ('opd', q.opd)):
        if np.ndim(getattr(p, name)) == 0:
            if np.ndim(arr) != 0 or np.asarray(arr) != np.asarray(getattr(p, name)):
                acc.violation(f'{via}:scalar-{name}-changed', case, f'a scalar {name} became {np.asarray(arr).shape}')
            continue
        if tuple(np.asarray(arr).shape) != want_shape:
            acc.violation(f'{via}:shape:{name}', case, f'{name} has shape {np.asarray(arr).shape}, expected ceil(n*s) = {want_shape}')
    m = np.asarray(q.mask)
    if m.ndim != np.asarray(p.mask).ndim or (m.ndim == 3 and m.shape[0] != p.mask.shape[0]) or tuple(m.shape[-2:]) != want_shape:
        acc.violation(f'{via}:mask-structure', case, f'mask shape {m.shape} (original {np.asarray(p.mask).shape})')
    elif not np.all((m == 0) | (m == 1)):
        acc.violation(f'{via}:mask-not-binary', case, 'mask is not binary')
    elif m.ndim == 3 and any(not seg_.any() for seg_ in m):
        acc.violation(f'{via}:empty-segment', case, 'a segment became empty')
    if tuple(q.shape) != want_shape:
        acc.violation(f'{via}:plane-shape', case, f'{q.shape}')
    # the returned plane owns its arrays: working on it in place must not reach the original
    for nm in ('amplitude', 'opd', 'mask'):
        a, b = np.asarray(getattr(q, nm)), np.asarray(getattr(p, nm))
        if a.ndim >= 2 and np.shares_memory(a, b):
            acc.violation(f'{via}:result-aliases-original:{nm}', case, f'the returned plane shares its {nm} array with the original')
    try:
        q2 = q.copy() if False else q
        if np.asarray(q2.opd).ndim == 2:
            q2.fit_tilt(inplace=True)
            if pdig(p) != d0:
                acc.violation(f'{via}:original-modified-through-result', case, 'in-place tilt fitting of the returned plane changed the original plane')
            q = p.rescale(s) if via == 'rescale' else p.resample(DX / s)      # a fresh result for the checks below
    except Exception as e:
        acc.violation(f'{via}:fit-on-result-raises:{type(e).__name__}', case, repr(e))
    # the result is a plane like any other: it can be rescaled / resampled again
    for t in (0.5, 1, 2):
        try:
            r = q.rescale(t) if via == 'rescale' else q.resample(DX / s / t)
        except Exception as e:
            acc.violation(f'{via}:again:raises:{type(e).__name__}', dict(case, then=t), f'rescaling the returned plane again by {t}: {e!r}')
            break
        want2 = (math.ceil(want_shape[0] * t), math.ceil(want_shape[1] * t))
        if tuple(r.shape) != want2 or r.pixelscale is None or not np.allclose(r.pixelscale, (DX / s / t,) * 2, rtol=1e-14, atol=0):
            acc.violation(f'{via}:again:bookkeeping', dict(case, then=t), f'second step by {t}: shape {r.shape} (want {want2}), pixel scale {r.pixelscale}')
        if t == 1 and (rm.maxerr(r.amplitude, q.amplitude) > 1e-12 or rm.maxerr(np.asarray(r.mask, float), np.asarray(q.mask, float)) > 0):
            acc.violation(f'{via}:again:identity', dict(case, then=t), 's = 1 applied to a rescaled plane is not the identity')
        acc.cls('again')
    if s == 1:
        if rm.maxerr(q.amplitude, p.amplitude) > 1e-12 or rm.maxerr(q.opd, p.opd) > 1e-12 * WL or rm.maxerr(np.asarray(q.mask, float), np.asarray(p.mask, float)) > 0:
            acc.violation(f'{via}:identity', case, f's = 1 is not the identity (amp {rm.maxerr(q.amplitude, p.amplitude):.2e})')
    # interpolation-accuracy claims (stated tolerances: 1 % power, 2 % relative L2 of the image, one sample of extent)
    if case.get('amp') == 'scalar' or case.get('cls') == 'Plane':
        # a hard-edged aperture is not smooth on the grid (no accuracy claim) and an untyped plane cannot be propagated on its own:
        # the resampled plane must still be usable
        try:
            if case.get('cls') != 'Plane':
                psf(q, DX)
            else:
                import lentil as _lentil
                _lentil.Wavefront(WL) * q
        except Exception as e:
            acc.violation(f'{via}:propagate-raises:{type(e).__name__}', case, repr(e))
    elif tuple(np.asarray(q.amplitude).shape) == want_shape:
        p0, p1 = float(np.sum(np.abs(p.amplitude) ** 2)), float(np.sum(np.abs(q.amplitude) ** 2))
        acc.cls('power-err-ppm<=%d' % (10 ** math.ceil(math.log10(max(abs(p1 / p0 - 1) * 1e6, 1)))))
        if abs(p1 / p0 - 1) > 0.01:
            acc.violation(f'{via}:power:{kind}', case, f'transmitted power {p1} vs {p0} (ratio {p1 / p0:.5f})')
        try:
            I0, I1 = psf(p, DX), psf(q, DX)
            l2 = float(np.linalg.norm(I1 - I0) / np.linalg.norm(I0))
            acc.cls('image-l2<=%g' % (10.0 ** math.ceil(math.log10(max(l2, 1e-9)))))
            # (planes that carry fitted tilt are propagated segment by segment into shifted windows: the stated 2 % is calibrated on
            # planes without tilt metadata; a mis-handled tilt moves the image by samples, i.e. by order one)
            if l2 > (0.1 if case.get('fit_first') else 0.02):
                acc.violation(f'{via}:image:{kind}', case, f'propagated image differs by relative L2 {l2:.4f}')
        except Exception as e:
            acc.violation(f'{via}:propagate-raises:{type(e).__name__}', case, repr(e))
        # physical extent: rms width of |amplitude|^2 in metres within one (finer) sample
        w0 = second_moment(p.amplitude, p.pixelscale)
        w1 = second_moment(q.amplitude, q.pixelscale if q.pixelscale is not None else want_ps)
        one = max(DX, DX / s)
        if abs(w0[0] - w1[0]) > one or abs(w0[1] - w1[1]) > one:
            acc.violation(f'{via}:extent:{kind}', case, f'rms width {w1} m vs {w0} m')
        ext0 = (shape[0] * DX, shape[1] * DX)
        ext1 = (want_shape[0] * want_ps[0], want_shape[1] * want_ps[1])
        if abs(ext0[0] - ext1[0]) > one or abs(ext0[1] - ext1[1]) > one:
            acc.violation(f'{via}:array-extent:{kind}', case, f'array extent {ext1} vs {ext0}')
    acc.cls(f'{via}:{kind}')
    acc.cls('seg:' + seg)
    acc.cls('amp:' + case.get('amp', 'real'))
    acc.case(case, nontrivial=s != 1, outcome=f'{via}-{kind}-{seg}')


def chk_refuse(case, acc, seed):
    import lentil
    p = plane((24, 24), 'mono', seed, pixelscale=None)
    try:
        p.resample(1e-3)
        acc.violation('resample:no-pixelscale-accepted', case, 'resample without a pixel scale accepted')
    except ValueError:
        pass
    except Exception as e:
        acc.violation('resample:no-pixelscale-wrong-exception', case, repr(e))
    p = plane((24, 24), 'mono', seed, pixelscale=(1e-3, 2e-3))
    d0 = pdig(p)
    try:
        p.resample(1e-3)
        acc.violation('resample:non-uniform-accepted', case, 'resample of a non-uniformly sampled plane accepted')
    except (NotImplementedError, ValueError):
        pass
    except Exception as e:
        acc.violation('resample:non-uniform-wrong-exception', case, repr(e))
    if pdig(p) != d0:
        acc.violation('resample:refusal-mutates', case, 'refused resample changed the plane')
    # a plane sampled differently along rows and columns can be rescaled (not resampled): each pixel scale is divided by s
    for s_ in (0.5, 1, 1.5, 2):
        for ps in ((1e-3, 2e-3), (3e-3, 1e-3)):
            p = plane((24, 30), 'mono', seed, pixelscale=ps)
            try:
                q = p.rescale(s_)
            except Exception as e:
                acc.violation(f'rescale:non-uniform:raises:{type(e).__name__}', dict(case, scale=s_, pixelscale=ps), repr(e))
                continue
            if q.pixelscale is None or not np.allclose(q.pixelscale, (ps[0] / s_, ps[1] / s_), rtol=1e-14, atol=0):
                acc.violation('rescale:non-uniform:pixelscale', dict(case, scale=s_, pixelscale=ps), f'pixel scale {q.pixelscale} != {(ps[0] / s_, ps[1] / s_)}')
            if tuple(q.shape) != (math.ceil(24 * s_), math.ceil(30 * s_)):
                acc.violation('rescale:non-uniform:shape', dict(case, scale=s_, pixelscale=ps), f'{q.shape}')
            if tuple(p.pixelscale) != ps:
                acc.violation('rescale:non-uniform:original-modified', dict(case, scale=s_, pixelscale=ps), f'{p.pixelscale}')
    acc.cls('non-uniform-sampling')
    # resample between independently given decimal pixel scales whose float quotient lies one ulp beside an integer (0.3 / 0.1):
    # the result has the requested pixel scale and ceil(n * old/new) samples (either reading of the quotient) (w9-C17-2)
    from fractions import Fraction as _Fr
    for old_ps, new_ps in (('0.3', '0.1'), ('0.6', '0.2'), ('0.7', '0.1'), ('1.2e-3', '0.4e-3'), ('0.3', '0.15'), ('0.9', '0.3'), ('0.1', '0.3')):
        o_, n_ = float(old_ps), float(new_ps)
        p = plane((24, 30), 'mono', seed, pixelscale=o_)
        sub = dict(case, old=o_, new=n_)
        try:
            q = p.resample(n_)
        except Exception as e:
            acc.violation(f'resample:decimal:raises:{type(e).__name__}', sub, repr(e))
            continue
        if q.pixelscale is None or not np.allclose(q.pixelscale, (n_, n_), rtol=1e-12, atol=0):
            acc.violation('resample:decimal:pixelscale', sub, f'resample({n_}) of a plane sampled at {o_} has pixel scale {q.pixelscale}')
        exact = _Fr(old_ps) / _Fr(new_ps)
        ok_shapes = {(math.ceil(24 * k), math.ceil(30 * k)) for k in (o_ / n_, exact)}
        if tuple(q.shape) not in ok_shapes:
            acc.violation('resample:decimal:shape', sub, f'resample({n_}) of a (24, 30) plane sampled at {o_} has shape {tuple(q.shape)}, expected one of {sorted(ok_shapes)}')
    acc.cls('decimal-pixelscales')
    # a plane without pixel scale can still be rescaled; the pixel scale stays undefined
    p = plane((24, 24), 'mono', seed, pixelscale=None)
    q = p.rescale(2)
    if q.pixelscale is not None:
        acc.violation('rescale:pixelscale-invented', case, f'{q.pixelscale}')
    # a rescale that cannot be done (a one-sample segment that does not survive down-sampling) leaves the plane as it was
    n = 20
    seg = np.zeros((3, n, n))
    seg[0, 4:16, 2:9] = 1
    seg[1, 4:16, 11:18] = 1
    seg[2, 17, 9] = 1
    rr = np.arange(n)[:, None] - n / 2.0
    p = lentil.Pupil(amplitude=seg.sum(axis=0), opd=30e-9 * seg.sum(axis=0) * rr / 8, mask=seg, pixelscale=DX, focal_length=Z)
    d0 = pdig(p)
    for sc in (0.5, 0.25, 0.75):
        try:
            p.rescale(sc)
            acc.cls('tiny-segment:done')
        except Exception:
            acc.cls('tiny-segment:refused')
        if p.amplitude is None or p.opd is None or pdig(p) != d0:
            acc.violation('rescale:refusal-mutates', dict(case, scale=sc), f'after rescale({sc}) of a plane with a one-sample segment the original plane changed')
            break
        try:
            r = p.rescale(2)
            if tuple(r.shape) != (2 * n, 2 * n):
                acc.violation('rescale:after-refusal', dict(case, scale=sc), f'{r.shape}')
        except Exception as e:
            acc.violation(f'rescale:after-refusal:raises:{type(e).__name__}', dict(case, scale=sc), repr(e))
            break
    acc.cls('refusals')
    acc.case(case, outcome='refuse')


def chk_history(case, acc, seed):
    """rescaling plane B gives the same plane whether or not another plane A (other size, same scale) was rescaled before"""
    sa, sb, s, seg = tuple(case['a']), tuple(case['b']), case['scale'], case['seg']
    engine.reset_library_state()
    cold = plane(sb, seg, seed).rescale(s)
    engine.reset_library_state()
    plane(sa, seg, seed).rescale(s)
    warm = plane(sb, seg, seed).rescale(s)
    if pdig(cold) != pdig(warm):
        acc.violation('rescale:history-dependent', case,
                      f'rescale({s}) of a {sb} plane differs after rescaling a {sa} plane (amplitude max diff '
                      f'{rm.maxerr(cold.amplitude, warm.amplitude):.3e})')
    acc.cls('history')
    acc.case(case, outcome='history')


DISPATCH = {'resample': chk, 'refuse': chk_refuse, 'history': chk_history}


DISPATCH['histop'] = histories.chk_case

def t_shape(arg, acc):
    for seg in ('mono', 'seg2'):
        for s in SCALES:
            for via in ('rescale', 'resample'):
                acc.transitions += 1
                chk({'kind': 'resample', 'shape': arg['shape'], 'seg': seg, 'scale': s, 'via': via}, acc, arg['seed'])
                chk({'kind': 'resample', 'shape': arg['shape'], 'seg': seg, 'scale': s, 'via': via, 'used_first': True}, acc, arg['seed'])
    for s in SCALES:
        for via in ('rescale', 'resample'):
            chk({'kind': 'resample', 'shape': arg['shape'], 'seg': 'intmask', 'scale': s, 'via': via}, acc, arg['seed'])
            chk({'kind': 'resample', 'shape': arg['shape'], 'seg': 'mono', 'scale': s, 'via': via, 'amp': 'complex'}, acc, arg['seed'])
    for s in SCALES:
        for via in ('rescale', 'resample'):
            for extra in ({'cls': 'Image'}, {'cls': 'Plane'}, {'amp': 'scalar'}, {'amp': 'scalar', 'seg': 'seg2'}, {'fit_first': True}, {'fit_first': True, 'seg': 'seg2'}):
                chk(dict({'kind': 'resample', 'shape': arg['shape'], 'seg': 'mono', 'scale': s, 'via': via}, **extra), acc, arg['seed'])
                acc.cls('class-and-state-variants')
    for dx in (1e-6, 2e-8, 3e-9):
        for s in SCALES + [1.004, 0.9995]:
            for via in ('rescale', 'resample'):
                chk({'kind': 'resample', 'shape': arg['shape'], 'seg': 'mono', 'scale': s, 'via': via, 'dx': dx}, acc, arg['seed'])
                acc.cls('fine-sampling')
    chk_refuse({'kind': 'refuse'}, acc, arg['seed'])
    sh = tuple(arg['shape'])
    for other in ((sh[0] + 1, sh[1] + 1), (sh[0] - 1, sh[1] - 1), (sh[1], sh[0]), (sh[0] + 1, sh[1])):
        for s in (0.5, 0.75, 1.5, 2):
            for seg in ('mono', 'seg2'):
                chk_history({'kind': 'history', 'a': other, 'b': sh, 'scale': s, 'seg': seg}, acc, arg['seed'])


def run(tier, seed, acc, procs=None):
    tasks = [('t_shape', {'seed': seed, 'shape': s}) for s in shapes(tier)]
    acc.states += 1
    acc.transitions += len(tasks)
    tasks += histories.tasks_for(PID, seed)        # pairwise call histories over the operations this property is anchored in
    engine.run_parallel(MOD, tasks, acc, procs)
    return {
        'rule': 'Gaussian-apodised amplitude + low-order OPD on even, odd and non-square arrays x monolithic / two-segment mask x 9 scale '
                'factors 0.5..4 (non-integers included) x {rescale(s), resample(dx/s)}: exact bookkeeping (pixel scale, ceil(n*s) '
                'samples, binary mask with its segment structure, original untouched, identity for s = 1, refusals) and the '
                'interpolation-accuracy claims with stated tolerances (power 1 %, image relative L2 2 %, extent one sample).',
        'bounds': {'shapes': shapes(tier), 'scales': SCALES},
        'assumptions': ['"interpolation accuracy" is a bounded numerical statement: tolerances are 10x above the spline noise measured on '
                        'this alphabet and far below the factor s^2 (power) or s (pixel scale) that a convention error produces'],
        'require': {'rescale:down': 8, 'rescale:up': 30, 'resample:identity': 4, 'seg:seg2': 40, 'refusals': 1, 'history': 30, 'again': 200, 'seg:intmask': 40, 'amp:complex': 40, 'fine-sampling': 100, 'non-uniform-sampling': 1, 'class-and-state-variants': 300},
    }


def replay(case, acc):
    if case.get('kind') == 'histop':
        import os as _os
        return histories.chk_case(case, acc, int(_os.environ.get('VERIF_SEED', '0') or 0))
    seed = int(os.environ.get('VERIF_SEED', '0') or 0)
    DISPATCH[case['kind']](case, acc, seed)
