"""Reference models shared by the optics checks.

The Fourier reference evaluates the defining double sum with the phase reduced
exactly: alpha, coordinates, shifts and offsets are fractions.Fraction (floats
convert exactly), alpha*x*u mod 1 is computed in rationals and only then passed
to cos/sin.  The only error in a comparison is therefore the implementation's
own rounding.
"""
import functools
import math
from fractions import Fraction

import numpy as np

TWO_PI = 2 * math.pi


def fr(x):
    if isinstance(x, Fraction):
        return x
    if isinstance(x, (int, np.integer)):
        return Fraction(int(x))
    if isinstance(x, str):
        return Fraction(x)
    return Fraction(float(x))   # exact value of the double


@functools.lru_cache(maxsize=20000)
def dft_matrix(n_in, n_out, alpha, shift, offset):
    """E[u, x] = exp(-2 pi i alpha (x + offset) (u - shift)); origins at floor(n/2).
    alpha, shift: Fractions; offset: Fraction/int."""
    E = np.empty((n_out, n_in), dtype=complex)
    for ui in range(n_out):
        u = Fraction(ui - n_out // 2) - shift
        for xi in range(n_in):
            x = Fraction(xi - n_in // 2) + offset
            ph = (alpha * x * u) % 1
            a = TWO_PI * float(ph)
            E[ui, xi] = complex(math.cos(a), -math.sin(a))
    E.setflags(write=False)
    return E


def dft2(f, alpha, shape=None, shift=(0, 0), offset=(0, 0), unitary=True):
    """Defining sum F(u,v) = sum f(x,y) exp(-2 pi i (ar x u + ac y v)) [* sqrt|ar ac|]."""
    f = np.asarray(f, dtype=complex)
    m, n = f.shape
    if np.ndim(alpha) == 0:
        ar = ac = fr(alpha)
    else:
        ar, ac = fr(alpha[0]), fr(alpha[1])
    if shape is None:
        M, N = m, n
    elif np.ndim(shape) == 0:
        M = N = int(shape)
    else:
        M, N = int(shape[0]), int(shape[1])
    sr, sc = (fr(shift), fr(shift)) if np.ndim(shift) == 0 else (fr(shift[0]), fr(shift[1]))
    orr, oc = (fr(offset), fr(offset)) if np.ndim(offset) == 0 else (fr(offset[0]), fr(offset[1]))
    Er = dft_matrix(m, M, ar, sr, orr)
    Ec = dft_matrix(n, N, ac, sc, oc)
    F = Er @ f @ Ec.T
    if unitary:
        F = F * math.sqrt(abs(float(ar) * float(ac)))
    return F


def idft2(F, alpha, unitary=True):
    """Inverse for the full-period case: conjugate kernel, 1/N when not unitary."""
    F = np.asarray(F, dtype=complex)
    f = np.conj(dft2(np.conj(F), alpha, unitary=unitary))
    if not unitary:
        f = f / F.size
    return f


# ----------------------------------------------------------------------
PRIMES = [2, 3, 5, 7, 11, 13, 17, 19, 23, 29, 31, 37, 41, 43, 47, 53, 59, 61, 67, 71, 73, 79, 83, 89, 97,
          101, 103, 107, 109, 113, 127, 131, 137, 139, 149, 151, 157, 163, 167, 173, 179, 181, 191, 193]


def generic_complex(shape, seed=0, tag=0):
    """Deterministic generic complex payload: distinct moduli and arguments, no symmetry."""
    n = int(np.prod(shape))
    k = np.arange(n, dtype=float)
    s = 1 + (seed % 8) + 0.37 * tag
    mod = 0.5 + ((k * 0.6180339887498949 * s + 0.11 * s) % 1.0)
    arg = TWO_PI * ((k * 0.7548776662466927 + 0.3 * s + 0.05 * k * k) % 1.0)
    return (mod * np.exp(1j * arg)).reshape(shape)


def generic_real(shape, seed=0, tag=0, lo=0.2, hi=1.0):
    n = int(np.prod(shape))
    k = np.arange(n, dtype=float)
    s = 1 + (seed % 8) + 0.37 * tag
    v = (k * 0.6180339887498949 * s + 0.23 * s + 0.031 * k * k) % 1.0
    return (lo + (hi - lo) * v).reshape(shape)


def maxerr(a, b):
    a = np.asarray(a); b = np.asarray(b)
    if a.shape != b.shape:
        return float('inf')
    if a.size == 0:
        return 0.0
    return float(np.max(np.abs(a - b)))
