"""Validate MANIFEST.json and every evidence file against the schemas (run with python3-vt)."""
import json, sys, os
import jsonschema
V = os.path.dirname(os.path.dirname(os.path.abspath(__file__)))
m = json.load(open(f'{V}/MANIFEST.json'))
jsonschema.validate(m, json.load(open('/root/.vp/MANIFEST.schema.json')))
es = json.load(open('/root/.vp/EVIDENCE.schema.json'))
bad = 0
for c in m['checks']:
    p = c['evidence_file']
    if not os.path.exists(p):
        print('MISSING', p); bad += 1; continue
    try:
        jsonschema.validate(json.load(open(p)), es)
    except Exception as e:
        print('INVALID', p, str(e)[:300]); bad += 1
ids = {c['property_id'] for c in m['checks']} | {n['property_id'] for n in m.get('not_applicable', [])}
allp = {json.loads(l)['id'] for l in open(f'{V}/properties.jsonl')}
if ids != allp:
    print('property coverage mismatch', allp ^ ids); bad += 1
print('selftest', 'FAILED' if bad else 'ok', len(m['checks']), 'checks')
sys.exit(1 if bad else 0)
