"""E3: documentation tables -> TLA+ model -> TLC -> labelled state graph -> paths for conformance replay."""
import os
import re
import shutil
import subprocess
import tempfile

from .engine import LENTIL_SRC

PT = ['none', 'pupil', 'image', 'tilt', 'transform']
WF = ['none', 'pupil', 'image']


def _tick(s):
    m = re.search(r'``([a-z]+)``', s)
    return m.group(1) if m else None


def parse_mul_table(docs):
    """docs/user/fundamentals/wavefront.rst, section 'Multiplication rules' (grid table).
    -> {(plane_ptype, wavefront_ptype): result ptype or None (not allowed)}"""
    txt = open(os.path.join(docs, 'user/fundamentals/wavefront.rst')).read()
    i = txt.index('Multiplication rules')
    lines = txt[i:].splitlines()
    rows = []
    started = False
    for ln in lines:
        if ln.startswith('+') or ln.startswith('|'):
            started = True
            if ln.startswith('|'):
                rows.append([c.strip() for c in ln.strip().strip('|').split('|')])
        elif started:
            break
    header = None
    table = {}
    for cells in rows:
        ticks = [_tick(c) for c in cells]
        if not cells[0] and all(t in WF for t in ticks[1:]) and len(cells) == 4:
            header = ticks[1:]
            continue
        if header and ticks[0] in PT and len(cells) == 4:
            for wf, c in zip(header, cells[1:]):
                if 'not allowed' in c.lower():
                    table[(ticks[0], wf)] = None
                else:
                    r = _tick(c)
                    if r not in WF:
                        raise ValueError(f'cannot parse cell {c!r}')
                    table[(ticks[0], wf)] = r
    if header != WF or len(table) != 15:
        raise ValueError(f'multiplication table not understood: header={header} cells={len(table)}')
    return table


def parse_class_table(docs):
    """docs/user/fundamentals/planes.rst: ptype -> documented classes."""
    txt = open(os.path.join(docs, 'user/fundamentals/planes.rst')).read()
    out = {}
    for ln in txt.splitlines():
        m = re.match(r'\s*:class:`(none|pupil|image|tilt|transform)`\s+(.*)$', ln)
        if m:
            out[m.group(1)] = re.findall(r':class:`~lentil\.(\w+)`', m.group(2))
    if sorted(out) != sorted(PT) or not all(out.values()):
        raise ValueError(f'class table not understood: {out}')
    return out


def parse_prop_table(docs):
    """docs/user/fundamentals/diffraction.rst: wavefront ptype -> ptype after far-field propagation (or None)."""
    txt = open(os.path.join(docs, 'user/fundamentals/diffraction.rst')).read()
    out = {}
    for ln in txt.splitlines():
        m = re.match(r'\s*``(none|pupil|image)``\s+``(none|pupil|image)``\s+(.*)$', ln)
        if m:
            wf, pl, method = m.groups()
            if 'propagate_dft' in method:
                out[wf] = pl
            elif 'not supported' in method.lower():
                out[wf] = None
    for wf in WF:
        out.setdefault(wf, None)
    if out.get('pupil') != 'image' or out.get('image') != 'pupil':
        # still a legal parse; the TLC invariant below will say whether the docs state the swap
        pass
    return out


def q(s):
    return '"%s"' % s


def generate(mul, classes, prop, extra_classes):
    """TLA+ module text.  One named action per plane ptype, per class, and Propagate."""
    L = ['---- MODULE PType ----',
         'VARIABLES wf, outcome',
         'vars == <<wf, outcome>>',
         'WF == {"none", "pupil", "image"}',
         'NA == "NotAllowed"']
    # multiplication table as a function [plane ptype -> [wf ptype -> result]]
    rows = []
    for p in PT:
        cells = ', '.join(f'{w} |-> {q(mul[(p, w)]) if mul[(p, w)] else "NA"}' for w in WF)
        rows.append(f'{p} |-> [{cells}]')
    L.append('MulTable == [' + ',\n             '.join(rows) + ']')
    L.append('PropTable == [' + ', '.join(f'{w} |-> {q(prop[w]) if prop[w] else "NA"}' for w in WF) + ']')
    L.append('Init == wf \\in WF /\\ outcome = "ok"')
    def body(p):
        return (f'IF MulTable.{p}[wf] = NA THEN UNCHANGED wf /\\ outcome\' = "TypeError"\n'
                f'          ELSE wf\' = MulTable.{p}[wf] /\\ outcome\' = "ok"')
    acts = []
    for p in PT:
        L.append(f'Mul_{p} == {body(p)}')
        acts.append(f'Mul_{p}')
    for p in PT:
        for c in classes[p]:
            L.append(f'Cls_{c} == {body(p)}')
            acts.append(f'Cls_{c}')
    for c, p in extra_classes.items():
        L.append(f'Cls_{c} == {body(p)}')
        acts.append(f'Cls_{c}')
    # a tilt-interface plane built with an explicit ptype (documented keyword) is a plane of that type: same table row
    for p in ('pupil', 'image'):
        L.append(f'Cls_TiltAs{p.capitalize()} == {body(p)}')
        acts.append(f'Cls_TiltAs{p.capitalize()}')
    # the documentation names two far-field methods (propagate_dft, propagate_fft): one action each, same table
    for pa in ('Propagate', 'PropagateFFT'):
        L.append(pa + ' == IF PropTable[wf] = NA THEN UNCHANGED wf /\\ outcome\' = "TypeError"\n'
                 '             ELSE wf\' = PropTable[wf] /\\ outcome\' = "ok"')
        acts.append(pa)
    L.append('Next == ' + ' \\/ '.join(acts))
    L.append('Spec == Init /\\ [][Next]_vars')
    # the documented protocol's own invariants (the statement of C08)
    L.append('TypeOK == wf \\in WF /\\ outcome \\in {"ok", "TypeError"}')
    L.append('RefusalKeepsType == [][outcome\' = "TypeError" => wf\' = wf]_vars')
    L.append('PropagationSwaps == [][(Propagate \\/ PropagateFFT) => \\/ (outcome\' = "TypeError" /\\ wf = "none")\n'
             '                                   \\/ (outcome\' = "ok" /\\ wf = "pupil" /\\ wf\' = "image")\n'
             '                                   \\/ (outcome\' = "ok" /\\ wf = "image" /\\ wf\' = "pupil")]_vars')
    L.append('====')
    cfg = 'SPECIFICATION Spec\nINVARIANT TypeOK\nPROPERTY RefusalKeepsType\nPROPERTY PropagationSwaps\n'
    return '\n'.join(L) + '\n', cfg, acts


def run_tlc(tla, cfg):
    d = tempfile.mkdtemp(prefix='c08tlc.', dir='/dev/shm' if os.path.isdir('/dev/shm') else None)
    try:
        open(os.path.join(d, 'PType.tla'), 'w').write(tla)
        open(os.path.join(d, 'PType.cfg'), 'w').write(cfg)
        tlc = shutil.which('tlc')
        if not tlc:
            raise RuntimeError('tlc not on PATH')
        def unlimit():
            # the checks run under a soft address-space limit; the JVM needs to reserve more than that
            import resource
            hard = resource.getrlimit(resource.RLIMIT_AS)[1]
            resource.setrlimit(resource.RLIMIT_AS, (hard, hard))

        r = subprocess.run([tlc, '-workers', '1', '-noGenerateSpecTE', '-metadir', os.path.join(d, 'meta'),
                            '-dump', 'dot,actionlabels', os.path.join(d, 'graph.dot'), '-deadlock', 'PType.tla'],
                           cwd=d, capture_output=True, text=True, timeout=600, preexec_fn=unlimit)
        out = r.stdout + r.stderr
        if 'Model checking completed. No error has been found.' not in out:
            raise RuntimeError('TLC reported an error in the documented protocol model:\n' + out[-3000:])
        m = re.search(r'(\d+) states generated, (\d+) distinct states found', out)
        dot = open(os.path.join(d, 'graph.dot')).read()
        return dot, (int(m.group(1)), int(m.group(2))) if m else (0, 0), out
    finally:
        shutil.rmtree(d, ignore_errors=True)


def read_dot(dot):
    """-> nodes {id: {'wf':…, 'outcome':…}}, edges [(src, action, dst)], initial ids"""
    nodes, edges, init = {}, [], []
    for ln in dot.splitlines():
        m = re.match(r'\s*(-?\d+) -> (-?\d+) \[label="(\w+)"', ln)
        if m:
            edges.append((m.group(1), m.group(3), m.group(2)))
            continue
        m = re.match(r'\s*(-?\d+) \[label="((?:[^"\\]|\\.)*)"(.*)\]\s*;?\s*$', ln)
        if m:
            lab = m.group(2)
            st = dict(re.findall(r'(\w+) = \\"(\w+)\\"', lab))
            nodes[m.group(1)] = st
            if 'style = filled' in m.group(3):
                init.append(m.group(1))
    return nodes, edges, init
