"""python -m mc.kf fixed C01 <commit> <key> <what...>   |  python -m mc.kf finding C08 <key> <what...>"""
import json, sys, os
V = os.path.dirname(os.path.dirname(os.path.abspath(__file__)))
p = f'{V}/known_findings.json'
k = json.load(open(p))
kind, pid = sys.argv[1], sys.argv[2]
if kind == 'fixed':
    k['fixed'].append({'property': pid, 'commit': sys.argv[3], 'key': sys.argv[4], 'what': ' '.join(sys.argv[5:])})
else:
    k['findings'].append({'property': pid, 'key': sys.argv[3], 'what': ' '.join(sys.argv[4:])})
json.dump(k, open(p, 'w'), indent=1)
