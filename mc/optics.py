"""Shared helpers for the optics checks (C02-C05, C07, C09)."""
from fractions import Fraction as Fr

import numpy as np

from . import refmodel as rm

# dyadic physical parameters: alpha = dx*du/(wl*z*os) = 2^-3/(z*os) for the defaults
DX = 2.0 ** -7
DU = 2.0 ** -17
WL = 2.0 ** -21
DX2 = (2.0 ** -7, 3 * 2.0 ** -9)
DU2 = (2.0 ** -17, 5 * 2.0 ** -19)


def pair(x):
    return (x, x) if np.ndim(x) == 0 else (x[0], x[1])


def alpha_exact(dx, du, wl, z, os_):
    dx, du = pair(dx), pair(du)
    return tuple(rm.fr(dx[k]) * rm.fr(du[k]) / (rm.fr(wl) * rm.fr(z) * os_) for k in range(2))


def support_mask(shape, kind):
    m = np.ones(shape)
    if kind == 'full':
        return m
    if kind == 'offcentre':            # first row and first column empty -> cropped field with an offset
        if shape[0] > 1: m[0, :] = 0
        if shape[1] > 1: m[:, 0] = 0
        return m
    if kind == 'block':                # single off-axis block in the lower-right corner
        m[:] = 0
        m[shape[0] - max(2, shape[0] // 2):, shape[1] - max(2, shape[1] // 3):] = 1   # >= 2x2: a one-pixel mask is a 'one-element field'
        return m
    if kind == 'cornerless':           # bounding box = full array but corners missing
        m[0, 0] = 0; m[-1, -1] = 0
        return m
    raise ValueError(kind)


def pupil_arrays(shape, support, seed, tag=0):
    """amplitude (zero outside the support), OPD (metres, generic fractions of a wave)."""
    mask = support_mask(shape, support)
    amp = rm.generic_real(shape, seed, tag=tag, lo=0.3, hi=1.0) * mask
    opd = (rm.generic_real(shape, seed, tag=tag + 7, lo=-0.4, hi=0.4)) * WL
    return amp, opd, mask


def phasor(amp, opd, wl, mask=None):
    amp = np.asarray(amp)
    f = (amp if np.iscomplexobj(amp) else np.asarray(amp, dtype=float)) * np.exp(2j * np.pi * np.asarray(opd, dtype=float) / wl)
    if mask is not None:
        f = f * (np.asarray(mask) != 0)
    return f


def render(wf):
    """Render a wavefront's Fields on its own grid with index arithmetic independent of lentil.extent /
    lentil.field.insert.  Returns (values, count) where count[i,j] = number of fields covering the sample."""
    shape = tuple(int(s) for s in wf.shape)
    val = np.zeros(shape, dtype=complex)
    cnt = np.zeros(shape, dtype=int)
    outside = 0
    for f in wf.data:
        d = np.asarray(f.data)
        if d.ndim != 2:
            raise ValueError(f'field with data shape {d.shape}')
        off = f.offset
        for i in range(d.shape[0]):
            for j in range(d.shape[1]):
                r = int(off[0]) - d.shape[0] // 2 + i + shape[0] // 2
                c = int(off[1]) - d.shape[1] // 2 + j + shape[1] // 2
                if 0 <= r < shape[0] and 0 <= c < shape[1]:
                    val[r, c] += d[i, j]
                    cnt[r, c] += 1
                else:
                    outside += 1
    return val, cnt, outside


class RefPlane:
    """Reference Fraunhofer field on a big canonical grid keyed by output coordinate relative to the axis."""

    def __init__(self, field, alpha, half):
        self.half = half
        n = 2 * half + 1
        self.big = rm.dft2(field, alpha, shape=(n, n), unitary=True)

    def on_grid(self, shape_out):
        """values on an output array of shape_out with the optical axis at floor(n/2)"""
        R, C = shape_out
        r0 = self.half - R // 2
        c0 = self.half - C // 2
        if r0 < 0 or c0 < 0 or r0 + R > self.big.shape[0] or c0 + C > self.big.shape[1]:
            raise ValueError('reference grid too small')
        return self.big[r0:r0 + R, c0:c0 + C]


def centred_window(shape_out, win):
    """boolean array: the centred window of size `win` (origin convention floor(n/2)) clipped to shape_out"""
    R, C = shape_out
    m = np.zeros((R, C), dtype=bool)
    r0 = R // 2 - win[0] // 2
    c0 = C // 2 - win[1] // 2
    m[max(r0, 0):max(min(r0 + win[0], R), 0), max(c0, 0):max(min(c0 + win[1], C), 0)] = True
    return m


def bbox_mask(mask):
    nz = np.argwhere(np.asarray(mask) > 0)
    m = np.zeros(np.asarray(mask).shape, dtype=bool)
    if len(nz):
        (r0, c0), (r1, c1) = nz.min(0), nz.max(0)
        m[r0:r1 + 1, c0:c1 + 1] = True
    return m
