"""Catalogue of public calls for the history harness (mc/histories.py): base arguments, one-factor alternatives, refused values.

Every factory builds FRESH objects from the payload seed, so two evaluations of the same variant are the same call.
`props` names the properties whose check runs the operation (the properties anchored in that code); C10 ("no hidden state")
runs all of them.
"""
import sys

import numpy as np

from . import refmodel as rm, optics as op_
from .histories import Op, DX, DU, WL, Z


def build():
    import lentil
    import lentil.helper as lh
    import lentil.extent as le
    import lentil.field as lf
    rad = sys.modules['lentil.radiometry']
    det = lentil.detector
    Field = lf.Field

    def R(shape, tag, lo=0.2, hi=2.0):
        return lambda seed: rm.generic_real(shape, seed, tag=tag, lo=lo, hi=hi)

    def C(shape, tag):
        return lambda seed: rm.generic_complex(shape, seed, tag)

    def K(v):
        return lambda seed: (np.array(v, copy=True) if isinstance(v, np.ndarray) else v)

    ops = {}

    def add(name, props, fn, base, alts=None, bad=None, **kw):
        ops[name] = Op(name, set(props) | {'C10'}, fn, base, alts, bad, **kw)

    # ------------------------------------------------------------------------------------------------ Fourier (C01, C02, C05)
    add('dft2', ['C01', 'C02', 'C05'], lentil.fourier.dft2,
        lambda s: dict(f=C((4, 5), 1)(s), alpha=(0.2, 0.125), shape=(5, 6), shift=(0.5, -1.0), offset=(1, 0), unitary=True),
        alts=dict(f=[C((4, 5), 2), lambda s: rm.generic_real((4, 5), s, tag=3)],
                  alpha=[K((0.2, 0.25)), K((0.1, 0.125)), K(0.2), K(np.array([0.2, 0.125]))],
                  shape=[K((5, 5)), K((6, 6)), K(np.array([5, 6]))],
                  shift=[K((0.5, -2.0)), K((-1.0, -1.0)), K((-2.0, -1.0)), K(np.array([0.5, -1.0]))],
                  offset=[K((-1, 0)), K((-2, 0)), K((1, -1)), K((1, -2)), K(np.array([1, 0]))],
                  unitary=[K(False)]),
        bad=[('out', lambda s: np.zeros((5, 6))), ('out', lambda s: np.zeros((2, 2), dtype=complex)), ('alpha', K((0.1, 0.2, 0.3)))])
    add('dft2-out', ['C01'], lentil.fourier.dft2,
        lambda s: dict(f=C((4, 5), 1)(s), alpha=(0.2, 0.125), shape=(5, 6), shift=(0.5, -1.0), offset=(1, 0), out=np.full((5, 6), 3 - 2j)),
        alts=dict(f=[C((4, 5), 2)], out=[lambda s: np.zeros((5, 6), dtype=complex), lambda s: np.full((5, 6), 1j)],
                  offset=[K((-1, 0)), K((-2, 0))]),
        writes=['out'], norefill=['out'])
    add('dft2-square', ['C01'], lentil.fourier.dft2,
        lambda s: dict(f=C((8, 9), 8)(s), alpha=(1 / 8, 1 / 9), shape=(8, 9)),
        alts=dict(f=[C((8, 9), 9)], alpha=[K((0.1, 0.1))], shape=[K((9, 8))], unitary=[K(False)]))
    add('idft2-square', ['C01'], lentil.fourier.idft2,
        lambda s: dict(F=C((8, 9), 8)(s), alpha=(1 / 8, 1 / 9), shape=(8, 9)), alts=dict(F=[C((8, 9), 9)], unitary=[K(False)]))
    add('dft2-wide-out', ['C01'], lambda f, alpha, shape, out: _dft2_out_vs_fresh(lentil, f, alpha, shape, out),
        lambda s: dict(f=C((3, 300), 10)(s), alpha=(0.2, 1 / 300), shape=(4, 5), out=np.full((4, 5), 2 - 1j)),
        alts=dict(f=[C((3, 300), 11), C((300, 3), 12), C((40, 260), 13)], shape=[K((5, 4))], out=[lambda s: np.zeros((4, 5), dtype=complex)]), writes=['out'], norefill=['out'],
        invariant=lambda r: r[1])
    add('idft2', ['C01'], lentil.fourier.idft2,
        lambda s: dict(F=C((4, 5), 4)(s), alpha=(0.25, 0.2), unitary=True),
        alts=dict(F=[C((4, 5), 5)], alpha=[K((0.2, 0.2)), K(0.25)], unitary=[K(False)], shift=[K((1.0, 0.0)), K((2.0, 0.0))]),
        bad=[('out', lambda s: np.zeros((4, 5))), ('out', lambda s: np.zeros((3, 3), dtype=complex))])

    # ------------------------------------------------------------------------------------------------ geometry helpers (C20, C17)
    add('pad', ['C20', 'C09'], lentil.pad, lambda s: dict(array=R((3, 4), 5)(s), shape=(6, 5)),
        alts=dict(array=[R((3, 4), 6), R((2, 3, 4), 7)], shape=[K((2, 2)), K((5, 3)), K(np.array([6, 5]))]))
    add('subarray', ['C20'], lentil.subarray, lambda s: dict(a=R((7, 8), 8)(s), shape=(3, 4), shift=(1, -1)),
        alts=dict(a=[R((7, 8), 9)], shape=[K((2, 2)), K(np.array([3, 4]))], shift=[K((0, 0)), K((-1, 1)), K(np.array([1, -1])), K(np.array([0, 1]))]),
        bad=[('shift', K((9, 9))), ('shift', K(np.array([9, 9]))), ('shape', K((20, 20)))])
    add('rebin', ['C20'], lentil.rebin, lambda s: dict(img=R((4, 6), 10)(s), factor=2),
        alts=dict(img=[R((4, 6), 11), R((3, 4, 6), 12)], factor=[K(1)]), bad=[('factor', K(0))])
    add('rescale', ['C17'], lentil.rescale, lambda s: dict(img=R((8, 8), 13)(s), scale=1.5),
        alts=dict(img=[R((8, 8), 14), C((8, 8), 15), lambda s: np.ones((8, 8), dtype=int)], scale=[K(1), K(0.5), K(2)],
                  shape=[K((6, 6)), K(6)], mask=[lambda s: (rm.generic_real((8, 8), s, tag=16) > 0.5) * rm.generic_real((8, 8), s, tag=17),
                                                 lambda s: np.ones((8, 8))], order=[K(1)], unitary=[K(False)], mode=[K('constant')]))
    add('boundary', ['C20', 'C02'], lentil.boundary, lambda s: dict(x=lentil.circle((9, 8), 3.25, antialias=False)),
        alts=dict(x=[lambda s: lentil.circle((9, 8), 2.25, shift=(1, 0), antialias=False), lambda s: lentil.rectangle((9, 8), 2, 3, shift=(-1, 1), antialias=False)],
                  threshold=[K(0.5)]))
    add('centroid', ['C20'], lentil.centroid, lambda s: dict(img=lentil.circle((9, 8), 3.25)),
        alts=dict(img=[lambda s: lentil.circle((9, 8), 2.25, shift=(1, 0)), R((9, 8), 18)]))
    add('boundary_slice', ['C20', 'C03'], lh.boundary_slice, lambda s: dict(x=lentil.circle((9, 8), 3.25, antialias=False)),
        alts=dict(x=[lambda s: lentil.circle((9, 8), 2.25, shift=(1, 0), antialias=False), lambda s: lentil.rectangle((9, 8), 2, 3, shift=(-1, 1), antialias=False)],
                  pad=[K(1), K((2, 0))], threshold=[K(0.5)]))
    add('slice_offset', ['C20', 'C03'], lh.slice_offset, lambda s: dict(slice=(slice(1, 5), slice(2, 5)), shape=(9, 8)),
        alts=dict(slice=[K((slice(0, 9), slice(0, 8))), K((slice(4, 6), slice(0, 3)))], shape=[K((8, 9)), K(np.array([9, 8]))]))
    add('mesh', ['C20'], lh.mesh, lambda s: dict(shape=(5, 6)), alts=dict(shape=[K((6, 5)), K((5, 5))], shift=[K((1, 0)), K((0.5, -1))], angle=[K(30)]))
    add('circle', ['C20'], lentil.circle, lambda s: dict(shape=(9, 8), radius=3.25, shift=(1, 0)),
        alts=dict(shape=[K((8, 9)), K((9, 9))], radius=[K(2.5)], shift=[K((0, 0)), K((0, 1)), K(np.array([1, 0]))], antialias=[K(False)]))
    add('hexagon', ['C20'], lentil.hexagon, lambda s: dict(shape=(11, 11), radius=4.25, shift=(0, 1)),
        alts=dict(shape=[K((12, 11))], radius=[K(3.5)], shift=[K((0, 0)), K((1, 0))], rotate=[K(True)], antialias=[K(False)]))
    add('rectangle', ['C20'], lentil.rectangle, lambda s: dict(shape=(9, 8), width=4, height=3, shift=(1, -1)),
        alts=dict(shape=[K((8, 9))], width=[K(5)], height=[K(2)], shift=[K((0, 0)), K((0, 1))], angle=[K(20), K(90)], antialias=[K(False)]))
    add('hex_segments', ['C20'], lentil.hex_segments, lambda s: dict(rings=2, seg_radius=4.5, seg_gap=1),
        alts=dict(rings=[K(1), K(3)], seg_radius=[K(5.5)], seg_gap=[K(2)], rotate=[K(True)], antialias=[K(False)], flatten=[K(True)], drop=[K(()), K((1, 2))], pad=[K(0)]))
    add('normalize_power', ['C05'], lentil.normalize_power, lambda s: dict(array=R((4, 4), 19)(s), power=2),
        alts=dict(array=[R((4, 4), 20), C((4, 4), 21), lambda s: np.arange(16).reshape(4, 4) + 1], power=[K(1), K(0.5)]))

    # ------------------------------------------------------------------------------------------------ extents and fields (C06)
    add('array_extent', ['C06', 'C02'], le.array_extent, lambda s: dict(shape=(3, 4), shift=(1, -2)),
        alts=dict(shape=[K((4, 3)), K((1, 1)), K(())], shift=[K((0, 0)), K((-1, -2)), K(np.array([1, -2]))], parent_shape=[K((8, 8)), K((7, 9))]))

    def F(shape, off, tag):
        return lambda s: Field(rm.generic_complex(shape, s, tag), offset=list(off))

    add('field.merge', ['C06'], lf.merge, lambda s: dict(a=F((3, 3), (0, 0), 30)(s), b=F((2, 2), (1, 1), 31)(s)),
        alts=dict(a=[F((3, 3), (-1, 0), 32), F((2, 4), (0, 0), 33)], b=[F((2, 2), (0, 0), 34), F((3, 2), (-2, 1), 35)]),
        bad=[('b', F((2, 2), (9, 9), 36))])
    add('field.mul', ['C06'], lambda a, b: a * b, lambda s: dict(a=F((3, 3), (1, 0), 37)(s), b=F((2, 3), (0, 1), 38)(s)),
        alts=dict(a=[F((3, 3), (0, 0), 39), lambda s: Field(2.5 + 0.5j)], b=[F((2, 3), (1, 1), 40), F((2, 3), (8, 8), 41), lambda s: Field(np.array([[0.5 + 1j]]))]))
    add('field.insert', ['C06', 'C07'], lf.insert, lambda s: dict(field=F((3, 3), (1, 0), 42)(s), out=np.zeros((6, 5), dtype=complex), weight=1),
        alts=dict(field=[F((3, 3), (-2, 2), 43), F((2, 2), (0, 0), 44)], out=[lambda s: np.full((6, 5), 1 + 1j), lambda s: np.zeros((4, 4), dtype=complex)],
                  weight=[K(0.5), K(2)]),
        writes=['out'], norefill=['out'])
    add('field.insert-intensity', ['C06', 'C07'], lf.insert, lambda s: dict(field=F((3, 3), (1, 0), 42)(s), out=np.zeros((6, 5)), intensity=True, weight=1),
        alts=dict(field=[F((3, 3), (-2, 2), 43)], out=[lambda s: np.full((6, 5), 1.0)], weight=[K(0.5), K(2)]),
        writes=['out'], norefill=['out'])

    def flist(s):
        return [F((3, 3), (0, 0), 45)(s), F((2, 2), (3, 3), 46)(s), F((2, 3), (1, 1), 47)(s)]

    add('field.boundary', ['C06'], lf.boundary, lambda s: dict(fields=flist(s)),
        alts=dict(fields=[lambda s: flist(s)[::-1], lambda s: tuple(flist(s)), lambda s: flist(s)[:1], lambda s: (f for f in flist(s)), lambda s: iter(flist(s))]), consumes=True)
    add('field.reduce', ['C06', 'C03'], lf.reduce, lambda s: dict(fields=flist(s)),
        alts=dict(fields=[lambda s: flist(s)[::-1], lambda s: [flist(s)[1], flist(s)[0], flist(s)[2]], lambda s: flist(s)[:2]]))
    add('extent.queries', ['C06'], lambda a, b: (le.intersect(a, b), le.intersection_shape(a, b) if le.intersect(a, b) else None,
                                                  le.intersection_extent(a, b) if le.intersect(a, b) else None,
                                                  le.intersection_slices(a, b) if le.intersect(a, b) else None,
                                                  le.intersection_shift(a, b) if le.intersect(a, b) else None),
        lambda s: dict(a=np.array([-1, 1, -2, 1]), b=np.array([0, 3, 0, 2])),
        alts=dict(a=[K(np.array([0, 0, 0, 0])), K(np.array([-4, -2, -4, -3])), K((-1, 1, -2, 1)), K([-1, 1, -2, 1])], b=[K(np.array([1, 1, 1, 1])), K(np.array([-1, 1, -2, 1])), K((0, 3, 0, 2))]))

    # ------------------------------------------------------------------------------------------------ planes and wavefronts
    def pupil(tag=50, seg=False, scalar=False, fit=False, ps=DX, shape=(6, 5)):
        def mk(s):
            amp, opd, _ = op_.pupil_arrays(shape, 'offcentre', s, tag=tag)
            rr = (np.arange(shape[0])[:, None] - shape[0] // 2) * np.ones(shape)
            opd = opd + 0.3 * WL * rr / shape[0]
            kw = {}
            if seg:
                m = np.zeros((2,) + shape)
                m[0][:, :shape[1] // 2] = 1
                m[1][:, shape[1] // 2:] = 1
                kw['mask'] = m * (amp != 0)
            p = lentil.Pupil(amplitude=0.5 if scalar else amp, opd=opd, pixelscale=ps, focal_length=Z, **(kw if not scalar else dict(mask=(amp != 0) * 1.0)))
            return p.fit_tilt() if fit else p
        return mk

    def wf(tag=50, **kw):
        return lambda s: lentil.Wavefront(WL) * pupil(tag, **kw)(s)

    def image_wf(tag=50, **kw):
        return lambda s: lentil.propagate_dft(wf(tag, **kw)(s), DU, shape=(6, 6), prop_shape=(3, 3), oversample=1)

    add('wavefront.mul', ['C07', 'C03', 'C04', 'C08'], lambda w, p: w * p,
        lambda s: dict(w=lentil.Wavefront(WL), p=pupil(50)(s)),
        alts=dict(w=[lambda s: lentil.Wavefront(WL, tilt=[1e-6, -2e-6]), wf(51), wf(52, seg=True, fit=True), lambda s: lentil.Wavefront(WL, pixelscale=DX)],
                  p=[pupil(53), pupil(54, seg=True), pupil(55, seg=True, fit=True), pupil(56, fit=True), pupil(57, scalar=True),
                     lambda s: lentil.Tilt(x=1e-6, y=2e-6), lambda s: lentil.Plane(), lambda s: lentil.Pupil(focal_length=3.0)]),
        bad=[('p', pupil(58, ps=2 * DX)), ('p', lambda s: lentil.Image(amplitude=np.ones((6, 5)))), ('p', lambda s: lentil.Tilt(x=1e-6, y=0, pixelscale=3 * DX))])
    add('tilt.mul', ['C04', 'C08', 'C09'], lambda w, t: w * t,
        lambda s: dict(w=wf(60)(s), t=lentil.Tilt(x=1e-6, y=-2e-6)),
        alts=dict(w=[wf(61, seg=True, fit=True), lambda s: lentil.Wavefront(WL)], t=[lambda s: lentil.Tilt(x=-3e-6, y=0), lambda s: lentil.Tilt(x=0, y=0)]),
        bad=[('t', lambda s: lentil.Tilt(x=5e-6, y=5e-6, pixelscale=3 * DX)), ('t', lambda s: lentil.Tilt(x=5e-6, y=5e-6, ptype=lentil.image))])
    full_img = lambda tag: (lambda s: lentil.propagate_dft(wf(tag)(s), DU, shape=(6, 6), oversample=1))          # one Field covering the whole frame
    full_pup = lambda tag: (lambda s: lentil.Wavefront(WL) * lentil.Pupil(amplitude=rm.generic_real((6, 5), s, tag=tag, lo=0.5, hi=1.0), pixelscale=DX, focal_length=Z))
    add('wavefront.field', ['C07', 'C02', 'C03'], lambda w: w.field, lambda s: dict(w=wf(62)(s)),
        alts=dict(w=[wf(63), wf(64, seg=True), image_wf(65), image_wf(66, seg=True, fit=True), image_wf(67, seg=True), full_img(68), full_pup(69)]), alias_ok=False)
    add('wavefront.intensity', ['C07', 'C05', 'C03'], lambda w: w.intensity, lambda s: dict(w=wf(62)(s)),
        alts=dict(w=[wf(63), wf(64, seg=True), image_wf(65), image_wf(66, seg=True, fit=True), image_wf(67, seg=True), full_img(68), full_pup(69)]), alias_ok=False)
    add('wavefront.views-twice', ['C07', 'C05', 'C03'], lambda w: (w.intensity, w.field, w.intensity, w.insert(np.zeros(tuple(w.shape)), weight=2.0), w.field),
        lambda s: dict(w=image_wf(67, seg=True)(s)), alts=dict(w=[image_wf(66, seg=True, fit=True), wf(64, seg=True), image_wf(65), full_img(68)]), alias_ok=False)
    add('wavefront.insert', ['C07'], lambda w, out, weight: w.insert(out, weight=weight),
        lambda s: dict(w=image_wf(65)(s), out=np.zeros((6, 6)), weight=1),
        alts=dict(w=[image_wf(66, seg=True, fit=True), image_wf(67, seg=True)], out=[lambda s: np.full((6, 6), 2.0), lambda s: np.zeros((8, 7))], weight=[K(0.25), K(3)]),
        writes=['out'], norefill=['out'])
    add('propagate_dft', ['C02', 'C03', 'C04', 'C05'], lentil.propagate_dft,
        lambda s: dict(wavefront=wf(70)(s), pixelscale=DU, shape=(5, 6), oversample=2),
        alts=dict(wavefront=[wf(71), wf(72, seg=True), wf(73, seg=True, fit=True), wf(74, fit=True)],
                  pixelscale=[K(2 * DU), K((DU, 2 * DU)), K(np.array([DU, DU])), K(np.array([DU, 2 * DU]))],
                  shape=[K((4, 4)), K(5), K(np.array([5, 6]))], prop_shape=[K((2, 3)), K(3)], oversample=[K(1), K(3)],
                  mask=[lambda s: (rm.generic_real((10, 12), s, tag=75) > 0.9) * 1.0, lambda s: np.pad(np.ones((4, 3)), ((2, 4), (6, 3)))]),
        bad=[('pixelscale', K((DU, DU, DU))), ('shape', K((2, 2, 2)))])
    add('propagate_fft', ['C09', 'C05'], lentil.propagate_fft,
        lambda s: dict(wavefront=wf(76)(s), pixelscale=DU, shape=(4, 4), oversample=2),
        alts=dict(wavefront=[wf(77), wf(78, seg=True)], pixelscale=[K(DU / 2), K((DU, DU / 2)), K(np.array([DU, DU])), K(np.array([DU / 2, DU]))],
                  shape=[K((6, 5)), K(None)], oversample=[K(1), K(4)]),
        bad=[('shape', K((4096, 4096))), ('wavefront', wf(79, fit=True)), ('scratch', lambda s: np.zeros((2, 2), dtype=complex))])
    add('propagate_fft-scratch', ['C09', 'C03'], lentil.propagate_fft,
        lambda s: dict(wavefront=wf(76)(s), pixelscale=DU, shape=(4, 4), oversample=1, scratch=np.full((40, 40), 5 - 1j)),
        alts=dict(wavefront=[wf(77), wf(78, seg=True), lambda s: lentil.Wavefront(WL * 1.25) * pupil(76)(s), lambda s: lentil.Wavefront(WL * 0.75) * pupil(76)(s)],
                  pixelscale=[K(DU / 2), K(np.array([DU, DU / 2]))], oversample=[K(2)],
                  scratch=[lambda s: np.zeros((40, 40), dtype=complex), lambda s: np.full((48, 44), 1j)]),
        writes=['scratch'], norefill=['scratch'])
    add('scratch_shape', ['C09'], lentil.scratch_shape, lambda s: dict(wavelength=WL, dx=DX, du=DU, z=Z, oversample=2),
        alts=dict(wavelength=[K(WL * 1.0004), K(WL * 1.0009), K(WL * 1.3), K(np.array([WL, 1.2 * WL])), K([WL * 1.0004, WL])], dx=[K(2 * DX), K((DX, 2 * DX))],
                  du=[K(DU / 2), K(np.array([DU, DU / 2]))], z=[K(2.0)], oversample=[K(1), K(3)]))
    add('scratch_shape-large', ['C09'], lentil.scratch_shape, lambda s: dict(wavelength=500.0e-9, dx=5e-3, du=5e-6, z=10.0, oversample=5),
        alts=dict(wavelength=[K(500.2e-9), K(500.4e-9), K(500.49e-9), K(499.6e-9), K(499.51e-9), K(np.array([500.0e-9, 500.4e-9]))], oversample=[K(4)]))
    add('propagate_dft-mask', ['C02'], lentil.propagate_dft,
        lambda s: dict(wavefront=wf(70)(s), pixelscale=DU, shape=(5, 6), oversample=1, mask=np.pad(np.ones((2, 2)), ((1, 2), (3, 1)))),
        alts=dict(mask=[lambda s: np.pad(np.ones((2, 3)), ((2, 1), (0, 3))), lambda s: (rm.generic_real((5, 6), s, tag=75) > 0.8) * 1.0, lambda s: np.ones((5, 6))],
                  wavefront=[wf(72, seg=True)]))
    add('wavefront.set-ptype', ['C08'], lambda w, ptype: (setattr(w, 'ptype', ptype), w)[1], lambda s: dict(w=wf(62)(s), ptype=lentil.pupil),
        alts=dict(w=[image_wf(65), lambda s: lentil.Wavefront(WL)], ptype=[K(lentil.image), K(lentil.none)]),
        bad=[('ptype', K(lentil.tilt)), ('ptype', K(lentil.transform)), ('ptype', K('bogus')), ('ptype', K(7))], writes=['w'], norefill=['w'])
    add('dft2-out-overlap', ['C01'], lambda f, alpha, how: _dft2_overlap(lentil, f, alpha, how), lambda s: dict(f=C((12, 12), 6)(s), alpha=(1 / 12, 1 / 12), how='view'),
        alts=dict(f=[C((9, 12), 7)], alpha=[K((0.1, 0.05))], how=[K('same'), K('block'), K('fresh')]), invariant=lambda r: r[1], writes=['f'], norefill=['f'])
    disp = lambda trace, dispersion: (lambda s: lentil.DispersiveTilt(trace=list(trace), dispersion=list(dispersion)))
    add('dispersive.shift', ['C04'], lambda t, wavelength, xs, ys: t.shift(wavelength=wavelength, xs=xs, ys=ys),
        lambda s: dict(t=disp([4000.0, 0.3, 0.0], [2.0 ** -10, WL - 2.0 ** -10 * 2e-5])(s), wavelength=WL, xs=0.0, ys=0.0),
        alts=dict(t=[disp([2000.0, 0.1, 0.0], [2.0 ** -10, WL - 2.0 ** -10 * 2e-5]), disp([-0.25, 0.0], [0.5, 2.0 ** -10, WL - (0.5 * (1e-5) ** 2 + 2.0 ** -10 * 1e-5)]),
                     disp([-0.25, 0.0], [0.25, 2.0 ** -10, WL - (0.25 * (1e-5) ** 2 + 2.0 ** -10 * 1e-5)]), disp([0.5, 1e-6], [2.0 ** -10, WL - 2.0 ** -10 * 3e-5]),
                     lambda s: lentil.Grism(trace=[4000.0, 0.3, 0.0], dispersion=[2.0 ** -10, WL - 2.0 ** -10 * 2e-5])],
                  wavelength=[K(WL * 1.01), K(WL * 0.99)], xs=[K(1e-5)], ys=[K(-2e-5)]))
    add('tilt.shift', ['C04'], lambda t, xs, ys, z: t.shift(xs=xs, ys=ys, z=z), lambda s: dict(t=lentil.Tilt(x=1e-6, y=-2e-6), xs=0.0, ys=0.0, z=1.0),
        alts=dict(t=[lambda s: lentil.Tilt(x=3e-6, y=0.0)], xs=[K(1e-5)], ys=[K(2e-5)], z=[K(2.0)]))
    add('wavefront.attribute-then-fft', ['C09'], lambda w, z, du: _set_then(lentil, w, z, du), lambda s: dict(w=wf(76)(s), z=None, du=DU),
        alts=dict(w=[wf(77)], z=[K(1.3), K(0.7), K(2.0)], du=[K(DU / 2)]), writes=['w'], norefill=['w'], invariant=lambda r: r[1])
    add('plane.maskonly-mul-rescale-mul', ['C07', 'C17'], lambda shape, scale: _maskonly(lentil, shape, scale), lambda s: dict(shape=(10, 8), scale=2),
        alts=dict(shape=[K((9, 9))], scale=[K(1.5), K(0.5)]), invariant=lambda r: r[1])
    add('plane.fit_tilt', ['C04', 'C03'], lambda p: p.fit_tilt(), lambda s: dict(p=pupil(80)(s)),
        alts=dict(p=[pupil(81), pupil(82, seg=True), pupil(83, fit=True), pupil(84, seg=True, fit=True), pupil(80, ps=4 * DX), pupil(80, ps=(DX, 3 * DX))]))
    add('plane.rescale-then-fit-inplace', ['C10', 'C04', 'C17'], lambda p, scale: (lambda q: (q.fit_tilt(inplace=True), q)[1])(p.rescale(scale)),
        lambda s: dict(p=pupil(85, shape=(12, 10))(s), scale=1.5),
        alts=dict(p=[pupil(87, seg=True, shape=(12, 10)), pupil(88, fit=True, shape=(12, 10))], scale=[K(1), K(2)]))
    add('plane.fit_tilt-inplace-twice', ['C04', 'C03'], lambda p: (p.fit_tilt(inplace=True), p.fit_tilt(inplace=True), p)[2], lambda s: dict(p=pupil(82, seg=True)(s)),
        alts=dict(p=[pupil(81), pupil(84, seg=True, fit=True)]), writes=['p'], norefill=['p'])
    add('plane.rescale', ['C17'], lambda p, scale: p.rescale(scale), lambda s: dict(p=pupil(85, shape=(12, 10))(s), scale=1.5),
        alts=dict(p=[pupil(86, shape=(12, 10)), pupil(87, seg=True, shape=(12, 10)), pupil(88, fit=True, shape=(12, 10))], scale=[K(1), K(2), K(0.5)]))
    add('plane.resample', ['C17'], lambda p, pixelscale: p.resample(pixelscale), lambda s: dict(p=pupil(85, shape=(12, 10))(s), pixelscale=DX / 1.5),
        alts=dict(p=[pupil(86, shape=(12, 10)), pupil(87, seg=True, shape=(12, 10))], pixelscale=[K(DX), K(DX / 2), K(DX * 0.999), K(2 * DX)]),
        bad=[('p', pupil(89, ps=None, shape=(12, 10))), ('p', pupil(89, ps=(DX, 2 * DX), shape=(12, 10)))])
    add('plane.observed-then-rescale', ['C17'], lambda p, scale: _observe_then(p, lambda q: q.rescale(scale)), lambda s: dict(p=pupil(87, seg=True, shape=(12, 10))(s), scale=1.5),
        alts=dict(p=[pupil(85, shape=(12, 10))], scale=[K(2)]), invariant=lambda r: r[2])
    add('plane.rescale-reassign-rescale', ['C17', 'C10'], lambda p, scale, attr: _reassign_then(p, attr, lambda q: q.rescale(scale)),
        lambda s: dict(p=pupil(85, shape=(12, 10))(s), scale=1.5, attr='opd'),
        alts=dict(p=[pupil(87, seg=True, shape=(12, 10))], scale=[K(2), K(0.5)], attr=[K('amplitude'), K('opd-inplace')]),
        invariant=lambda r: r[2], writes=['p'], norefill=['p'])
    add('plane.copy', ['C17', 'C04'], lambda p: p.copy(), lambda s: dict(p=pupil(83, fit=True)(s)), alts=dict(p=[pupil(82, seg=True)]))

    # ------------------------------------------------------------------------------------------------ Zernike (C11, C12)
    zm = lambda s: lentil.circle((9, 8), 3.25, antialias=False)
    zm2 = lambda s: lentil.circle((9, 8), 2.5, shift=(1, 0), antialias=False)
    zm3 = lambda s: lentil.rectangle((9, 8), 3, 5, shift=(0, -1), antialias=False)
    zc = lambda which, m=zm: (lambda s: np.array(lentil.zernike_coordinates(m(s), shift=(0.25, -0.5))[which], dtype=float))
    zc2 = lambda which: (lambda s: np.array(lentil.zernike_coordinates(zm2(s))[which], dtype=float))
    add('zernike', ['C11'], lentil.zernike, lambda s: dict(mask=zm(s), index=7),
        alts=dict(mask=[zm2, zm3, lambda s: zm(s) * 0.3], index=[K(4), K(8), K(2)], normalize=[K(False)]))
    add('zernike-coords', ['C11'], lentil.zernike, lambda s: dict(mask=zm(s), index=7, rho=zc(0)(s), theta=zc(1)(s)),
        alts=dict(mask=[zm2], index=[K(3)], normalize=[K(False)], rho=[zc2(0), lambda s: zc(0)(s) * 0.5], theta=[zc2(1)]))
    add('zernike_basis', ['C11', 'C12'], lentil.zernike_basis, lambda s: dict(mask=zm(s), modes=[2, 4, 7]),
        alts=dict(mask=[zm2, zm3], modes=[K([7, 4, 2]), K([3, 5, 8]), K(np.array([2, 4, 7])), K(4)], vectorize=[K(True)], normalize=[K(False)]))
    add('zernike_basis-coords', ['C11', 'C12'], lentil.zernike_basis, lambda s: dict(mask=zm(s), modes=[2, 4, 7], rho=zc(0)(s), theta=zc(1)(s)),
        alts=dict(modes=[K([3, 5, 8])], vectorize=[K(True)], rho=[lambda s: zc(0)(s) * 0.5, zc2(0)], theta=[zc2(1)]))
    add('zernike_compose', ['C11', 'C12'], lentil.zernike_compose, lambda s: dict(mask=zm(s), coeffs=np.array([0.1, 0.2, -0.3, 0.4, 0.0, 0.25])),
        alts=dict(mask=[zm2, zm3], coeffs=[K(np.array([0.0, 0.0, 0.5])), K([0.3, -0.1, 0.2, 0.0, 0.0, 0.1])], normalize=[K(False)]))
    zopd = lambda tag, m=zm: (lambda s: rm.generic_real((9, 8), s, tag=tag, lo=-1, hi=1) * m(s))
    add('zernike_fit', ['C12'], lentil.zernike_fit, lambda s: dict(opd=zopd(90)(s), mask=zm(s), modes=[1, 2, 3, 5]),
        alts=dict(opd=[zopd(91)], mask=[zm2, zm3], modes=[K([2, 3]), K([1, 2, 3, 4, 5, 6]), K(np.array([1, 2, 3, 5]))], normalize=[K(False)]),
        bad=[('modes', K([0, 1, 2])), ('mask', lambda s: np.ones((3, 3))), ('modes', K([-1]))])
    add('zernike_remove', ['C12'], lentil.zernike_remove, lambda s: dict(opd=zopd(90)(s), mask=zm(s), modes=[2, 3]),
        alts=dict(opd=[zopd(91)], mask=[zm2, zm3], modes=[K([1]), K([1, 2, 3, 4]), K(np.array([2, 3]))]),
        bad=[('modes', K([0, 1])), ('mask', lambda s: np.ones((3, 3)))])
    add('zernike_coordinates', ['C11'], lentil.zernike_coordinates, lambda s: dict(mask=zm(s)),
        alts=dict(mask=[zm2, zm3, lambda s: np.ones((6, 7))], shift=[K((0.5, 0)), K((0, 0))], rotate=[K(30)]))

    # ------------------------------------------------------------------------------------------------ radiometry (C13, C14, C15)
    Spectrum = rad.Spectrum
    gridA = np.array([400., 450., 500., 550., 600., 650., 700.])
    gridB = np.array([400., 410., 450., 520., 600., 690., 700.])          # same length and end points as gridA
    spec = lambda tag, g=gridA, wu='nm', vu=None: (lambda s: Spectrum(np.array(g, dtype=float) * {'nm': 1.0, 'um': 1e-3}[wu], rm.generic_real((len(g),), s, tag=tag, lo=0.5, hi=2.0), waveunit=wu, valueunit=vu))
    cube = lambda tag, dt=float: (lambda s: np.floor(rm.generic_real((2, 4, 4), s, tag=tag, lo=1, hi=60)).astype(dt) if dt is not float else rm.generic_real((2, 4, 4), s, tag=tag, lo=0, hi=40))
    qspec = lambda tag, wu='nm': (lambda s: Spectrum(np.array([400., 450., 550., 650., 700.]) * {'nm': 1.0, 'um': 1e-3}[wu], rm.generic_real((5,), s, tag=tag, lo=0.1, hi=0.9), waveunit=wu))
    add('spectrum.binary', ['C13'], lambda a, b, o: getattr(a, o)(b), lambda s: dict(a=spec(100)(s), b=spec(101, gridA[1:5])(s), o='add'),
        alts=dict(a=[spec(102), spec(103, gridB), spec(104, gridA, 'um'), spec(105, gridA[:4])], b=[spec(106, gridA[1:5]), spec(107, gridA[3:] + 300), spec(108, gridB), spec(109, gridA, 'um')],
                  o=[K('multiply'), K('subtract'), K('divide')]), alias_ok=False)
    add('spectrum.scalar', ['C13'], lambda a, k, o: getattr(a, o)(k), lambda s: dict(a=spec(100)(s), k=2.5, o='multiply'),
        alts=dict(a=[spec(102), spec(103, gridB)], k=[K(1), K(0), K(1.0), K(np.linspace(1, 2, 7))], o=[K('add'), K('subtract'), K('divide'), K('power')]), alias_ok=False)
    add('spectrum.operator', ['C13'], lambda a, k: (a * k, k * a, a + k, a / 1, a ** 1), lambda s: dict(a=spec(100)(s), k=1),
        alts=dict(a=[spec(103, gridB)], k=[K(0), K(2.0)]), alias_ok=False)
    add('spectrum.sample', ['C13', 'C15'], lambda a, wave, method, fill_value, waveunit: a.sample(wave, method=method, fill_value=fill_value, waveunit=waveunit),
        lambda s: dict(a=spec(110)(s), wave=np.array([420., 480., 650., 800.]), method='linear', fill_value=0, waveunit='nm'),
        alts=dict(a=[spec(111), spec(112, gridB)], wave=[K(np.array([400., 700.])), K(555.0), K([410., 411.])], method=[K('quadratic'), K('cubic')], fill_value=[K(1)],
                  waveunit=[K('um')]), writes=['a'], norefill=['a'])
    add('spectrum.integrate', ['C15'], lambda a, start, end, method: a.integrate(start, end, method=method),
        lambda s: dict(a=spec(113)(s), start=450., end=650., method='trapz'),
        alts=dict(a=[spec(114), spec(115, gridB), lambda s: Spectrum(gridB.copy(), spec(113)(s).value)], start=[K(None), K(400.), K(500.)], end=[K(None), K(700.), K(600.)], method=[K('simps')]))
    add('spectrum.bin', ['C15'], lambda a, wave, **kw: a.bin(wave, **kw), lambda s: dict(a=spec(116)(s), wave=np.array([450., 500., 550., 600.]), interp_method='trapz'),
        alts=dict(a=[spec(117), spec(118, gridB)], wave=[K(np.array([460., 510., 560., 610.])), K(np.array([450., 550., 650.])), K([450., 500., 550., 600.])],
                  interp_method=[K('simps')], ends=[K('inside')], preserve_power=[K(False)], waveunit=[K('um')]),
        bad=[('wave', K(np.array([500.]))), ('ends', K('bogus')), ('interp_method', K('bogus'))], writes=['a'], norefill=['a'])

    def mut(method, *a, **k):
        def fn(s_, **kw):
            getattr(s_, method)(*[kw[x] for x in a], **{x: kw[x] for x in k})
            return s_
        return fn

    add('spectrum.crop', ['C15'], lambda a, lo, hi: (a.crop(lo, hi), a)[1], lambda s: dict(a=spec(119)(s), lo=450., hi=650.),
        alts=dict(a=[spec(120), spec(121, gridB)], lo=[K(400.), K(425.)], hi=[K(700.), K(575.)]), writes=['a'], norefill=['a'])
    add('spectrum.crop-resample-crop', ['C15'], lambda a, lo, hi: (a.crop(lo, hi), a.resample(np.linspace(405., 695., 9)), a.crop(lo, hi), a)[3],
        lambda s: dict(a=spec(119)(s), lo=450., hi=650.), alts=dict(a=[spec(121, gridB)], lo=[K(425.)], hi=[K(575.)]), writes=['a'], norefill=['a'])
    add('spectrum.trim', ['C15'], lambda a, tol: (a.trim(tol), a)[1], lambda s: dict(a=Spectrum(gridA.copy(), np.array([0, 0.3, 2.0, 1e-5, 0.4, 0, 0.])), tol=1e-4),
        alts=dict(a=[lambda s: Spectrum(gridA.copy(), np.array([0, 0.3, -5.0, 1.0, 0.2, 1e-5, 0.]))], tol=[K(0.25), K(0.5)]),
        bad=[('a', lambda s: Spectrum(gridA.copy(), np.zeros(7)))], writes=['a'], norefill=['a'])
    add('spectrum.pad', ['C15'], lambda a, ends, sampling, mode: (a.pad(ends, sampling=sampling, mode=mode), a)[1],
        lambda s: dict(a=spec(122)(s), ends=(300, 800), sampling='min', mode='constant'),
        alts=dict(a=[spec(123, gridB)], ends=[K((350, 700)), K((390, 710))], sampling=[K(20)], mode=[K('edge')]),
        bad=[('ends', K((-5, 800)))], writes=['a'], norefill=['a'])
    add('spectrum.resample', ['C15'], lambda a, wave: (a.resample(wave), a)[1], lambda s: dict(a=spec(124)(s), wave=np.linspace(420., 680., 6)),
        alts=dict(a=[spec(125, gridB)], wave=[K(np.array([400., 500., 700.])), K(np.linspace(350., 750., 5))]),
        bad=[('wave', K(np.array([600., 500., 700.]))), ('wave', K(np.array([400., 400., 700.]))), ('wave', K(np.array([-1., 400., 700.])))], writes=['a'], norefill=['a'])
    add('spectrum.wave-setter', ['C13', 'C15'], lambda a, b, wave: (setattr(a, 'wave', wave), a + b)[1], lambda s: dict(a=spec(126)(s), b=spec(127, gridA[1:5])(s), wave=gridA + 5.0),
        alts=dict(a=[spec(128)], wave=[K(gridB.copy())]),
        bad=[('wave', K(np.array([0., .5, 1., 1.5, 2., 2.5, 3.]))), ('wave', K(gridA[::-1].copy())), ('wave', K(np.array([400., 400., 500., 550., 600., 650., 700.])))],
        writes=['a'], norefill=['a', 'wave'])
    add('spectrum.refused-edit-then-binary', ['C13', 'C15'], lambda a, b, how: _refused_then(a, lambda: a + b, how), lambda s: dict(a=spec(126)(s), b=spec(127, gridA[1:5])(s), how='wave-nonpositive'),
        alts=dict(a=[spec(128, gridB)], how=[K('wave-decreasing'), K('wave-duplicate'), K('resample-decreasing'), K('pad-negative'), K('none')]), writes=['a'], norefill=['a'],
        invariant=lambda r: r[2])
    add('spectrum.refused-to-then-collect', ['C16', 'C14'], lambda img, wave, qe, how: _refused_then(qe, lambda: det.collect_charge(img, wave, qe), how),
        lambda s: dict(img=cube(140)(s), wave=np.array([450., 650.]), qe=qspec(144)(s), how='to-second-unit'),
        alts=dict(qe=[qspec(145, 'um')], how=[K('to-bogus'), K('to-two-wave-units'), K('none')]), writes=['qe'], norefill=['qe'], invariant=lambda r: r[2])
    add('spectrum.to', ['C14', 'C16'], lambda a, units: (a.to(*units), a)[1], lambda s: dict(a=spec(130, gridA, 'nm', 'flam')(s), units=('um',)),
        alts=dict(a=[spec(131, gridA, 'nm', 'photlam'), spec(132, gridA, 'um', 'wlam'), spec(133, gridA, 'nm', None)], units=[K(('m', 'photlam')), K(('wlam',)), K(('angstrom',)), K(('nm',))]),
        bad=[('units', K(('um', 'jansky'))), ('units', K(('photlam', 'nope'))), ('units', K(('bogus',))), ('units', K(('um', 'nm')))], writes=['a'], norefill=['a'])
    add('spectrum.to-derive-to', ['C14'], lambda a, k: _to_derive_to(a, k), lambda s: dict(a=spec(130, gridA, 'nm', 'flam')(s), k=0.5),
        alts=dict(a=[spec(133, gridA, 'nm', None)], k=[K(1), K(2.0)]), writes=['a'], norefill=['a'],
        invariant=lambda r: None if all(np.array_equal(x, y) if isinstance(x, np.ndarray) else x == y for x, y in zip(r[0], r[1]))
        else 'a spectrum derived from (and a wavelength grid obtained from) this spectrum changed when this spectrum was converted to another unit')
    add('planck_radiance', ['C14'], rad.planck_radiance, lambda s: dict(wave=np.array([400., 500., 900.]), temp=5000., waveunit='nm', valueunit='photlam'),
        alts=dict(wave=[K(np.array([300., 2000.])), K(550.0)], temp=[K(3000.)], waveunit=[K('angstrom')], valueunit=[K('wlam'), K('flam')]))
    add('planck_exitance', ['C14'], rad.planck_exitance, lambda s: dict(wave=np.array([0.4, 0.5, 0.9]), temp=5000., waveunit='um', valueunit='flam'),
        alts=dict(wave=[K(np.array([0.3, 2.0]))], temp=[K(3000.)], waveunit=[K('m'), K('nm')], valueunit=[K('wlam'), K('photlam')]))
    add('vegaflux', ['C14'], rad.vegaflux, lambda s: dict(band='V', waveunit='um', valueunit='flam'),
        alts=dict(band=[K('K'), K('U')], waveunit=[K('nm'), K('m')], valueunit=[K('photlam'), K('wlam')]), bad=[('band', K('Q9'))])
    add('blackbody', ['C14'], lambda wave, temp, waveunit, valueunit, to, swu: _bb(rad, wave, temp, waveunit, valueunit, to, swu),
        lambda s: dict(wave=np.array([400., 500., 900.]), temp=4000., waveunit='nm', valueunit='photlam', to=(), swu='nm'),
        alts=dict(wave=[K(np.array([300., 600., 1200.]))], temp=[K(6000.)], waveunit=[K('um')], valueunit=[K('wlam'), K('flam')], to=[K(('wlam',)), K(('um',)), K(('um', 'flam'))], swu=[K('um')]))

    # ------------------------------------------------------------------------------------------------ detector (C16, C18, C19)
    add('collect_charge', ['C16'], det.collect_charge, lambda s: dict(img=cube(140)(s), wave=np.array([450., 650.]), qe=np.array([0.5, 0.25])),
        alts=dict(img=[cube(141), cube(142, np.int64), cube(143, np.uint16)], wave=[K([450., 650.]), K(np.array([450., 550.]))], qe=[K(0.5), K(np.array([0.2, 0.9])), qspec(144), qspec(145, 'um'), K([0.5, 0.25])],
                  waveunit=[K('um')]))
    add('collect_charge_bayer', ['C16'], det.collect_charge_bayer,
        lambda s: dict(img=cube(146)(s), wave=np.array([450., 650.]), qe_red=0.5, qe_green=np.array([0.2, 0.3]), qe_blue=qspec(147)(s), bayer_pattern='RGGB'),
        alts=dict(img=[cube(148), lambda s: rm.generic_real((2, 8, 8), s, tag=149, lo=0, hi=40)], qe_red=[K(0.9), qspec(150)], qe_green=[K(0.1)], qe_blue=[K(0.3), qspec(151)],
                  bayer_pattern=[K('GRBG'), K('RRRR'), K('RGGR')], oversample=[K(2)], flatten=[K(False)], waveunit=[K('um')]))
    frame = lambda tag, dt=float: (lambda s: (np.floor(rm.generic_real((3, 4), s, tag=tag, lo=0, hi=120)).astype(dt) if dt is not float else rm.generic_real((3, 4), s, tag=tag, lo=-3, hi=120)))
    add('adc', ['C16'], det.adc, lambda s: dict(img=frame(152)(s), gain=[2.0 ** -6, 0.5], saturation_capacity=100),
        alts=dict(img=[frame(153), frame(154, np.int64), frame(155, np.uint16)], gain=[K(0.5), K([2.0 ** -12, 2.0 ** -7, 0.25]), K(np.full((3, 4), 0.25)), K(np.stack([np.full((3, 4), 2.0 ** -6), np.full((3, 4), 0.5)])), K(2.5)],
                  saturation_capacity=[K(None), K(50.5)], dtype=[K(int), K(np.uint16)], warn_saturate=[K(True)]),
        bad=[('gain', K(np.ones((1, 2, 3, 4))))])
    sig = lambda tag, lo=0, hi=50: (lambda s: rm.generic_real((4, 5), s, tag=tag, lo=lo, hi=hi))
    add('shot_noise', ['C18'], det.shot_noise, lambda s: dict(img=sig(156)(s), method='poisson', seed=5),
        alts=dict(img=[sig(157), sig(158, 2000, 5000)], seed=[K(6), K(0)]), bad=[('img', K(np.array([[1.0, -2.0]]))), ('method', K('bogus')), ('seed', K(-1))], rng=True)
    add('shot_noise-gaussian', ['C18'], det.shot_noise, lambda s: dict(img=sig(159, 2000, 5000)(s), method='gaussian', seed=5),
        alts=dict(img=[sig(160, 3000, 9000)], seed=[K(6)]), bad=[('img', K(np.array([[1.0, -2.0]]))), ('img', lambda s: -sig(159, 2000, 5000)(s)), ('seed', K(-1))], rng=True)
    add('read_noise', ['C18'], det.read_noise, lambda s: dict(img=sig(161)(s), electrons=3.0, seed=5),
        alts=dict(img=[sig(162), lambda s: np.floor(sig(163)(s)).astype(np.int64)], electrons=[K(9.0)], seed=[K(6)]), bad=[('seed', K(-4)), ('electrons', K(-1.0)), ('electrons', K(np.ones((7, 7))))], rng=True)
    add('dark_current', ['C18'], det.dark_current, lambda s: dict(rate=20.5, shape=(4, 5), fpn_factor=0.2, seed=5),
        alts=dict(rate=[K(3.0), K(np.full((4, 5), 7.5))], shape=[K((5, 4))], fpn_factor=[K(0), K(0.5)], seed=[K(6)]),
        bad=[('rate', K(None)), ('rate', K(np.ones((7, 3)))), ('seed', K(-4)), ('shape', K('x'))], rng=True)
    add('rule07', ['C18'], det.rule07_dark_current, lambda s: dict(temperature=150, cutoff_wavelength=5e-6, pixelscale=18e-6, shape=(3, 4), fpn_factor=0.3, seed=5),
        alts=dict(temperature=[K(120)], cutoff_wavelength=[K(2.5e-6)], pixelscale=[K(10e-6)], fpn_factor=[K(0)], seed=[K(6)]), bad=[('seed', K(-4))], rng=True)
    pm = lambda s: np.pad(np.ones((6, 7)), 1)
    add('power_spectrum', ['C18'], lentil.power_spectrum, lambda s: dict(mask=pm(s), pixelscale=1e-3, rms=1e-9, half_power_freq=5, exp=3, seed=3),
        alts=dict(mask=[lambda s: np.pad(np.ones((6, 7)), 1) * (np.arange(72).reshape(8, 9) % 7 != 0)], pixelscale=[K(0.25)], rms=[K(3e-9)], half_power_freq=[K(2)], exp=[K(2)], seed=[K(4), K(0)]),
        bad=[('seed', K(-1)), ('seed', K(1.5)), ('mask', K(np.ones(6))), ('mask', K(np.ones((2, 6, 6))))], rng=True)
    im = lambda tag, shape=(5, 6): (lambda s: rm.generic_real(shape, s, tag=tag, lo=0.5, hi=3.0))
    add('pixel', ['C19'], det.pixel, lambda s: dict(img=im(170)(s), oversample=2), alts=dict(img=[im(171), im(172, (6, 5)), lambda s: np.floor(im(173)(s) * 20).astype(np.int64)], oversample=[K(1), K(3)]))
    add('jitter', ['C19'], lentil.jitter, lambda s: dict(img=im(170)(s), scale=1.25),
        alts=dict(img=[im(171), im(172, (6, 5))], scale=[K(0.5), K(0)], pixelscale=[K(2.0)], oversample=[K(3)]))
    add('smear', ['C19'], lentil.smear, lambda s: dict(img=im(170)(s), distance=2.0, angle=30),
        alts=dict(img=[im(171), im(172, (6, 5))], distance=[K(1.0), K(0)], angle=[K(90), K(200)], pixelscale=[K(2.0)], oversample=[K(3)]))
    add('blur-chain', ['C19'], lambda img: (lentil.jitter(img, 1.0), lentil.smear(img, 2.0, angle=45), det.pixel(img, 2), lentil.jitter(img, 1.0)), lambda s: dict(img=im(170)(s)),
        alts=dict(img=[im(171)]))
    return ops


# ---- helpers used by composite operations ----------------------------------------------------------------------------
def _props_of(q):
    seen = {}
    for name in sorted(dir(type(q))):
        attr = getattr(type(q), name, None)
        if isinstance(attr, property) and not name.startswith('_'):
            try:
                v = getattr(q, name)
                seen[name] = np.array(v, copy=True) if isinstance(v, np.ndarray) else (tuple(v) if isinstance(v, (list, tuple)) and all(isinstance(x, (int, float)) for x in v) else repr(type(v)))
            except Exception as e:
                seen[name] = 'raises ' + type(e).__name__
    return seen


def _observe_then(p, f):
    """f applied to a plane whose every public read-only attribute has been looked at gives the same plane, with the same public
    attributes, as f applied to a twin built afresh from the plane's amplitude, OPD, mask, pixel scale and tilt records"""
    import lentil
    twin = lentil.Pupil(amplitude=np.array(p.amplitude, copy=True), opd=np.array(p.opd, copy=True), mask=np.array(p.mask, copy=True),
                        pixelscale=p.pixelscale, focal_length=p.focal_length)
    twin.tilt = list(p.tilt)
    ref = f(twin)
    ref_seen = _props_of(ref)
    _props_of(p)                       # look at everything
    q = f(p)
    seen = _props_of(q)
    bad = [k for k in ref_seen if k not in seen or not (np.array_equal(seen[k], ref_seen[k]) if isinstance(ref_seen[k], np.ndarray) else seen[k] == ref_seen[k])]
    return q, seen, (f'attributes {bad} of the result differ between a plane whose read-only attributes were looked at before and an untouched twin' if bad else None)


def _reassign_then(p, attr, f):
    """f(p); give one attribute of p a new value through its documented setter (or edit the OPD array in place); f(p) again: the
    second result is that of f on a twin built afresh with the new attribute value"""
    import lentil
    f(p)
    amp, opd, mask = np.array(p.amplitude, dtype=float, copy=True), np.array(p.opd, dtype=float, copy=True), np.array(p.mask, copy=True)
    ps = p.pixelscale
    if attr == 'opd':
        opd = opd * 0.5 + 3e-8
        p.opd = opd.copy()
    elif attr == 'opd-inplace':
        if isinstance(p.opd, np.ndarray) and p.opd.flags.writeable:
            p.opd[...] = p.opd * 0.5 + 3e-8
            opd = np.array(p.opd, copy=True)
    elif attr == 'amplitude':
        amp = amp * 0.5
        p.amplitude = amp.copy()
    elif attr == 'mask':
        g = mask if mask.ndim == 2 else mask.sum(axis=0)
        r, c = np.argwhere(g != 0)[0]
        if mask.ndim == 2:
            mask[r, c] = 0
        else:
            mask[:, r, c] = 0
        p.mask = mask.copy()
    elif attr == 'pixelscale':
        ps = (2 * DX, 2 * DX)
        p.pixelscale = 2 * DX
    q = f(p)
    twin = lentil.Pupil(amplitude=amp, opd=opd, mask=mask, pixelscale=ps, focal_length=p.focal_length)
    twin.tilt = list(p.tilt)
    ref = f(twin)
    a, b = _props_of(q), _props_of(ref)
    bad = [k for k in b if k not in a or not (np.array_equal(a[k], b[k]) if isinstance(b[k], np.ndarray) else a[k] == b[k])]
    return q, a, (f'after p.{attr} was given a new value, attributes {bad} of the second result differ from those of a plane built afresh with that value' if bad else None)


def _to_derive_to(a, k):
    """convert, derive another spectrum and keep the grid, convert back: the derived spectrum and the kept grid stay what they were"""
    a.to('um')
    r = a * k
    g = a.wave
    keep = (np.array(r.wave, copy=True), np.array(r.value, copy=True), r.waveunit, np.array(g, copy=True))
    a.to('nm')
    a.to('angstrom')
    return keep, (np.array(r.wave, copy=True), np.array(r.value, copy=True), r.waveunit, np.array(g, copy=True)), a


def _refused_to_then(fn, img, wave, qe, units):
    try:
        if units:
            qe.to(*units)
    except Exception as e:
        pass
    return fn(img, wave, qe, waveunit='nm')


def _bb(rad, wave, temp, waveunit, valueunit, to, swu):
    bb = rad.Blackbody(wave, temp, waveunit=waveunit, valueunit=valueunit)
    if to:
        bb.to(*to)
    lam_nm = np.array([450., 800., 2000.])
    w = lam_nm * {'nm': 1.0, 'um': 1e-3}[swu]
    return bb, np.asarray(bb.sample(w, waveunit=swu))


def _dft2_overlap(lentil, f, alpha, how):
    """dft2 writing into a buffer that overlaps its input through another object gives what a fresh allocation gives"""
    ref = np.array(lentil.fourier.dft2(f.copy(), alpha, shape=f.shape), copy=True)
    if how == 'fresh':
        out = np.zeros(f.shape, dtype=complex)
        src = f
    elif how == 'same':
        src = f
        out = f
    elif how == 'view':
        src = f
        out = f.view()
    else:                      # the input is a block of a larger work buffer and the output is that same block through another slice object
        work = np.zeros((f.shape[0] + 4, f.shape[1] + 4), dtype=complex)
        work[2:-2, 2:-2] = f
        src = work[2:-2, 2:-2]
        out = work[2:f.shape[0] + 2, 2:f.shape[1] + 2]
    try:
        r = lentil.fourier.dft2(src, alpha, shape=f.shape, out=out)
    except ValueError as e:
        return ('refused', None)          # a library may refuse an output buffer it cannot use; it may not return wrong numbers
    bad = not np.allclose(np.asarray(r), ref, rtol=1e-12, atol=1e-12 * np.abs(ref).max())
    return (np.array(r, copy=True), f'dft2(f, out=<{how}>) differs from a fresh allocation by {np.abs(np.asarray(r) - ref).max():.3e}' if bad else None)


def _refused_then(obj, query, how):
    """query(); an edit of obj that the library refuses; query() again: same answer, and the refusal is a refusal"""
    q0 = query()
    attempts = {
        'wave-nonpositive': lambda: setattr(obj, 'wave', np.linspace(0., 3., len(obj.wave))),
        'wave-decreasing': lambda: setattr(obj, 'wave', np.asarray(obj.wave)[::-1].copy()),
        'wave-duplicate': lambda: setattr(obj, 'wave', np.concatenate([[obj.wave[0]], np.asarray(obj.wave)[:-1]])),
        'wave-length': lambda: setattr(obj, 'wave', np.asarray(obj.wave)[:-2].copy()),
        'resample-decreasing': lambda: obj.resample(np.array([600., 500., 700.])),
        'pad-negative': lambda: obj.pad((-5, 800)),
        'to-second-unit': lambda: obj.to('um', 'photlam'),
        'to-bogus': lambda: obj.to('um', 'bogus'),
        'to-two-wave-units': lambda: obj.to('bogus'),
        'none': lambda: None,
    }
    raised = None
    try:
        attempts[how]()
    except Exception as e:
        raised = type(e).__name__
    q1 = query()
    from .histories import dig_arg
    same = dig_arg(q0) == dig_arg(q1)
    msg = None
    if raised and not same:
        msg = f'after the refused edit {how!r} ({raised}) the same query answers differently'
    return q1, raised, msg


def _set_then(lentil, w, z, du):
    """propagate, change the focal length through the attribute, propagate again: the second result is computed for the focal
    length the wavefront has now (its reported wavelength is the one of the FFT grid that scratch_shape advertises for it)"""
    lentil.propagate_fft(w, du, shape=(4, 4), oversample=2)
    if z is not None:
        w.focal_length = z
    out = lentil.propagate_fft(w, du, shape=(4, 4), oversample=2)
    N = np.asarray(lentil.scratch_shape(w.wavelength, DX, du, w.focal_length, 2), dtype=float)
    want = float(np.min(N * DX * du / (w.focal_length * 2)))
    ok = abs(out.wavelength - want) <= 1e-12 * want
    return out, (None if ok else f'after w.focal_length = {z} the FFT propagation reports wavelength {out.wavelength!r}; the grid for that focal length gives {want!r}')


def _maskonly(lentil, shape, scale):
    """a plane defined by its mask alone (amplitude 1, OPD 0), used, rescaled, used again: the second product is the rescaled plane's"""
    m = lentil.circle(shape, min(shape) / 2 - 1, antialias=False)
    p = lentil.Pupil(mask=m, pixelscale=DX, focal_length=Z)
    w1 = lentil.Wavefront(WL) * p
    q = p.rescale(scale)
    w2 = lentil.Wavefront(WL) * q
    fresh = lentil.Pupil(mask=m, pixelscale=DX, focal_length=Z).rescale(scale)
    w3 = lentil.Wavefront(WL) * fresh
    from .histories import dig
    bad = dig(w2) != dig(w3) or tuple(np.asarray(w2.field).shape) != tuple(np.asarray(q.mask).shape[-2:])
    return (w1, w2), ('a mask-only plane that was used before it was rescaled gives a different (or differently sized) field than one rescaled first' if bad else None)


def _dft2_out_vs_fresh(lentil, f, alpha, shape, out):
    """wide / tall inputs: writing into a caller's (dirty) buffer gives the values of a fresh allocation, also for the inverse"""
    if tuple(out.shape) != tuple(shape):
        out = np.full(tuple(shape), out.flat[0])
    ref = np.array(lentil.fourier.dft2(f, alpha, shape=shape), copy=True)
    r = lentil.fourier.dft2(f, alpha, shape=shape, out=out)
    bad = (r is not out) or not np.array_equal(np.asarray(r), ref)
    refi = np.array(lentil.fourier.idft2(f, alpha, shape=shape), copy=True)
    out2 = np.full(tuple(shape), 7 + 7j)
    ri = lentil.fourier.idft2(f, alpha, shape=shape, out=out2)
    badi = not np.allclose(np.asarray(ri), refi, rtol=1e-13, atol=1e-13 * np.abs(refi).max())
    msg = None
    if bad:
        msg = f'dft2 of a {f.shape} input into a caller-supplied buffer differs from a fresh allocation by {np.abs(np.asarray(r) - ref).max():.3e}'
    elif badi:
        msg = f'idft2 of a {f.shape} input into a caller-supplied buffer differs from a fresh allocation'
    return np.array(r, copy=True), msg
