"""Pairwise call histories over a catalogue of public calls (the "history harness").

The properties quantify over call histories and object states, not only over single calls on fresh inputs.  For every
operation `op` of a catalogue (a public function or method with a base argument set, alternative values per parameter --
one factor at a time --, and argument values the library refuses) this module explores, on the real code:

  single      every one-factor variant cold (library state reset): the reference digest of its result; arguments untouched
  pair        every ORDERED pair (A, B) of variants: cold(B) == [A; B] (a result never depends on the call before it), and the
              result of A, held by the caller, is still what it was after B ran (no shared output buffer)
  edit        the caller edits the returned arrays in place; the identical call on fresh arguments still returns cold(base)
              (and, where the statement promises a new object, the arguments did not change through the result)
  refill      the caller passes the SAME array object twice, refilled in place with another variant's content in between:
              the second result is cold(that variant) (no memo keyed on object identity)
  refused     a call the library refuses is followed by the base call on the very same argument objects and by the base call
              on fresh ones: arguments untouched by the refusal, results == cold(base) (no residue of an error path)
  frozen      the base call on read-only arguments gives cold(base) (nothing is written into an argument)

All oracles are bit-equalities between two executions of the same code, so they cannot alarm on code that is a function of
its arguments.  The space is finite and fully enumerated: |variants|^2 ordered pairs per operation.
"""
import os
import sys
import warnings

import numpy as np

from . import engine, refmodel as rm, optics as op_

DX, DU, WL, Z = op_.DX, op_.DU, op_.WL, 1.0


# ---------------------------------------------------------------------------------------------------------------- digests
def _h(*parts):
    import hashlib
    m = hashlib.blake2b(digest_size=10)
    for p in parts:
        if isinstance(p, np.ndarray):
            m.update(str((p.dtype.str, p.shape)).encode()); m.update(np.ascontiguousarray(p).tobytes())
        else:
            m.update(repr(p).encode())
    return m.hexdigest()


def _tilt_id(t):
    return (type(t).__name__, float(getattr(t, 'x', 0) or 0), float(getattr(t, 'y', 0) or 0))


def dig(obj):
    """strict structural digest of anything the catalogue passes in or gets back"""
    if obj is None or isinstance(obj, (bool, np.bool_, str)):
        return repr(bool(obj)) if isinstance(obj, (bool, np.bool_)) else repr(obj)
    if isinstance(obj, (int, np.integer)):
        return ('i', int(obj))                      # a Python int and a numpy integer with the same value are the same answer
    if isinstance(obj, (float, np.floating)):
        return ('f', float(obj).hex())
    if isinstance(obj, (complex, np.complexfloating)):
        return ('c', complex(obj).real.hex(), complex(obj).imag.hex())
    if isinstance(obj, np.generic):
        return _h(np.asarray(obj))
    if isinstance(obj, np.ndarray):
        return _h(obj)
    if isinstance(obj, slice):
        return repr((obj.start, obj.stop, obj.step))
    if isinstance(obj, (list, tuple)):
        return (type(obj).__name__,) + tuple(dig(o) for o in obj)
    if isinstance(obj, dict):
        return tuple((k, dig(v)) for k, v in sorted(obj.items()))
    if hasattr(obj, 'wave') and hasattr(obj, 'value') and hasattr(obj, 'waveunit'):      # Spectrum
        return ('spectrum', type(obj).__name__, _h(np.asarray(obj.wave), np.asarray(obj.value)), obj.waveunit, obj.valueunit)
    if hasattr(obj, 'data') and isinstance(getattr(obj, 'data'), list):                 # Wavefront
        parts = [str(obj.ptype), tuple(int(x) for x in obj.shape), obj.wavelength, obj.focal_length,
                 None if obj.pixelscale is None else tuple(np.asarray(obj.pixelscale).tolist())]
        for f in obj.data:
            parts += [np.asarray(f.data), tuple(int(x) for x in np.asarray(f.offset).tolist()), [_tilt_id(t) for t in f.tilt]]
        return ('wavefront', _h(*parts))
    if hasattr(obj, 'amplitude') and hasattr(obj, 'opd'):                                  # Plane
        return ('plane', type(obj).__name__, _h(np.asarray(obj.amplitude), np.asarray(obj.opd), np.asarray(obj.mask)),
                tuple(_tilt_id(t) for t in obj.tilt), obj.pixelscale, str(obj.ptype), getattr(obj, 'focal_length', None))
    if hasattr(obj, 'offset') and hasattr(obj, 'tilt') and hasattr(obj, 'data'):           # Field
        return ('field', _h(np.asarray(obj.data)), tuple(np.asarray(obj.offset).tolist()), tuple(_tilt_id(t) for t in obj.tilt))
    if hasattr(obj, 'x') and hasattr(obj, 'y') and not hasattr(obj, 'shape'):
        return ('tilt',) + _tilt_id(obj)
    if hasattr(obj, 'transmission'):
        return ('material', dig(obj.transmission), dig(getattr(obj, 'emission', None)))
    return repr(obj)


def dig_arg(obj):
    """digest used to decide whether a call changed an ARGUMENT: a Spectrum re-expressed in another unit (what sample / bin /
    arithmetic do to their operands by design) is the same spectrum"""
    if hasattr(obj, 'wave') and hasattr(obj, 'value') and hasattr(obj, 'waveunit'):
        f = {'nm': 1.0, 'um': 1e3, 'm': 1e9, 'angstrom': 0.1}.get(obj.waveunit)
        if f is None or len(np.asarray(obj.wave)) == 0 or np.any(np.asarray(obj.wave, float) <= 0):
            return dig(obj)
        w = np.asarray(obj.wave, float) * f
        v = np.asarray(obj.value, float) / (f if obj.valueunit is not None else 1.0)
        try:
            import sys
            if obj.valueunit is not None:
                v = np.asarray(sys.modules['lentil.radiometry'].Unit(obj.valueunit).to(v * 1.0, 'wlam', w * 1e-9), float)
        except Exception:
            return dig(obj)
        return ('spectrum~', type(obj).__name__, _h(np.round(np.log(w), 9), np.round(np.log(np.abs(v) + 1e-300), 7), np.sign(v)))
    if isinstance(obj, (list, tuple)):
        return (type(obj).__name__,) + tuple(dig_arg(o) for o in obj)
    if hasattr(obj, 'transmission'):
        return ('material', dig_arg(obj.transmission), dig_arg(getattr(obj, 'emission', None)))
    return dig(obj)


def arrays_in(obj, out=None, values_only=False):
    """the ndarrays reachable from an argument / result (the objects themselves, not copies); values_only: of a Spectrum only the
    value array (the wavelength grid of a scalar operation is shared with the operand by design)"""
    out = [] if out is None else out
    if isinstance(obj, np.ndarray):
        out.append(obj)
    elif isinstance(obj, (list, tuple)):
        for o in obj:
            arrays_in(o, out, values_only)
    elif isinstance(obj, dict):
        for o in obj.values():
            arrays_in(o, out, values_only)
    elif hasattr(obj, 'wave') and hasattr(obj, 'value') and hasattr(obj, 'waveunit'):
        out += [a for a in ((obj.value,) if values_only else (obj.wave, obj.value)) if isinstance(a, np.ndarray)]
    elif hasattr(obj, 'data') and isinstance(getattr(obj, 'data'), list):
        for f in obj.data:
            if isinstance(f.data, np.ndarray):
                out.append(f.data)
    elif hasattr(obj, 'amplitude') and hasattr(obj, 'opd'):
        out += [a for a in (obj.amplitude, obj.opd, obj.mask) if isinstance(a, np.ndarray)]
    elif hasattr(obj, 'offset') and hasattr(obj, 'data') and isinstance(obj.data, np.ndarray):
        out.append(obj.data)
    return out


def refillable(x, y):
    """pairs (target array, source array) to turn argument x into the content of y in place, or None if that is not a
    legitimate edit (only arrays the caller owns outright: plain ndarrays, Spectrum.value, Plane.opd)"""
    if isinstance(x, np.ndarray) and isinstance(y, np.ndarray):
        return [(x, y)] if x.shape == y.shape and x.dtype == y.dtype and x.ndim >= 1 else None
    if hasattr(x, 'wave') and hasattr(x, 'value') and hasattr(y, 'wave'):
        xw, yw, xv, yv = np.asarray(x.wave), np.asarray(y.wave), x.value, y.value
        if type(x) is type(y) and x.waveunit == y.waveunit and x.valueunit == y.valueunit and np.array_equal(xw, yw) \
                and isinstance(xv, np.ndarray) and isinstance(yv, np.ndarray) and xv.shape == yv.shape and xv.dtype == yv.dtype:
            return [(xv, yv)]
        return None
    return None


# ---------------------------------------------------------------------------------------------------------------- harness
class Op:
    def __init__(self, name, props, fn, base, alts=None, bad=None, writes=(), alias_ok=True, norefill=(), rng=False, invariant=None, consumes=False):
        self.name, self.props, self.fn, self.base = name, set(props), fn, base
        self.alts = alts or {}
        self.bad = bad or []
        self.writes = set(writes)
        self.alias_ok = alias_ok
        self.norefill = set(norefill)
        self.rng = rng
        self.consumes = consumes            # an argument is a one-shot iterable: the same objects cannot be passed twice
        self.invariant = invariant          # optional: result -> None, or a message saying what the result contradicts

    def variants(self):
        v = [('base', None, 0)]
        for p in sorted(self.alts):
            for k in range(len(self.alts[p])):
                v.append((f'{p}#{k}', p, k))
        return v

    def args(self, seed, variant):
        a = self.base(seed)
        _, p, k = variant
        if p is not None:
            a[p] = self.alts[p][k](seed)
        return a


def _call(o, args):
    with warnings.catch_warnings():
        warnings.simplefilter('ignore')
        return o.fn(**args)


def _cold(o, seed, variant, want_result=False):
    engine.reset_library_state()
    np.random.seed(4242)
    args = o.args(seed, variant)
    d0 = {k: dig_arg(v) for k, v in args.items()}
    r = _call(o, args)
    d1 = {k: dig_arg(v) for k, v in args.items()}
    changed = [k for k in d0 if d0[k] != d1[k] and k not in o.writes]
    if want_result:
        return dig(_result(o, r, args)), changed, r
    return dig(_result(o, r, args)), changed


def _result(o, r, args):
    """what the caller observes: the returned value and, for calls documented to write into an argument, that argument"""
    if o.writes:
        return (r, tuple(args[k] for k in sorted(o.writes)))
    return r


def variant_by_name(o, name):
    for v in o.variants():
        if v[0] == name:
            return v
    raise KeyError(name)


def chk_case(case, acc, seed):
    """one scenario of the harness (also the replay entry point)"""
    o = catalogue()[case['op']]
    mode = case['mode']
    key = f'history:{o.name}'
    try:
        return _chk_case(o, mode, key, case, acc, seed)
    except engine.StopTask:
        raise
    except Exception as e:
        # every call of the catalogue is legal on the tree the catalogue was written against: a call that raises (also at the
        # call site: a renamed keyword, a removed default) is a behaviour of the code under test
        import traceback
        tb = traceback.extract_tb(e.__traceback__)
        acc.violation(f'{key}:raises:{type(e).__name__}', case, f'{o.name} ({mode}): {type(e).__name__}: {e} [{tb[-1].name}:{tb[-1].lineno}]')
        return None
    finally:
        acc.evaluations += 1


def _chk_case(o, mode, key, case, acc, seed):
    if True:
        if mode == 'single':
            v = variant_by_name(o, case['variant'])
            d, changed, r = _cold(o, seed, v, want_result=True)
            if o.invariant is not None:
                msg = o.invariant(r)
                if msg:
                    acc.violation(f'{key}:invariant', case, f'{o.name}({v[0]}): {msg}')
            if changed:
                acc.violation(f'{key}:modifies-argument:{changed[0]}', case, f'{o.name}({v[0]}) changed its argument(s) {changed}')
            d2, _ = _cold(o, seed, v)
            if d2 != d:
                acc.violation(f'{key}:not-reproducible', case, f'{o.name}({v[0]}) run twice from a cold library gives different results')
            return d
        if mode == 'pair':
            va, vb = variant_by_name(o, case['first']), variant_by_name(o, case['second'])
            cold_b, _ = _cold(o, seed, vb)
            engine.reset_library_state()
            np.random.seed(4242)
            args_a = o.args(seed, va)
            ra = _result(o, _call(o, args_a), args_a)
            keep = dig(ra)
            np.random.seed(4242)
            args_b = o.args(seed, vb)
            rb = _result(o, _call(o, args_b), args_b)
            if dig(rb) != cold_b:
                acc.violation(f'{key}:depends-on-previous-call', case,
                              f'{o.name}({vb[0]}) right after {o.name}({va[0]}) differs from the same call on a cold library')
            if dig(ra) != keep:
                acc.violation(f'{key}:earlier-result-changed', case,
                              f'the result of {o.name}({va[0]}), held by the caller, changed when {o.name}({vb[0]}) ran')
            return
        if mode == 'edit':
            v = variant_by_name(o, case.get('variant', 'base'))
            cold, _ = _cold(o, seed, v)
            engine.reset_library_state()
            np.random.seed(4242)
            args = o.args(seed, v)
            d_args = {k: dig_arg(x) for k, x in args.items()}
            r = _call(o, args)
            edited = 0
            arg_arrays = arrays_in(list(args.values()))
            for a in arrays_in(r, values_only=True):
                if a.ndim >= 1 and a.size > 0 and (not o.alias_ok or not any(a is x for x in arg_arrays)):
                    try:
                        a[...] = 7
                        edited += 1
                    except (ValueError, TypeError):
                        pass
            ch = [k for k in d_args if dig_arg(args[k]) != d_args[k] and k not in o.writes]
            if not o.alias_ok and edited and ch:
                acc.violation(f'{key}:result-shares-memory-with-argument:{ch[0]}', case,
                              f'editing the result of {o.name}({v[0]}) in place changed its argument(s) {ch}: the result is not a new object')
                return
            if not o.writes and not ch and not o.consumes:
                # the very same argument objects again: a query answers for its arguments as they are, whatever the caller did to
                # the previous answer
                np.random.seed(4242)
                r1 = _call(o, args)
                if dig(r1) != cold:
                    acc.violation(f'{key}:not-repeatable-after-result-edit:same-arguments', case,
                                  f'after the caller edited the result of {o.name}({v[0]}) in place, the same call on the same argument objects returns something else')
            np.random.seed(4242)
            args2 = o.args(seed, v)
            r2 = _result(o, _call(o, args2), args2)
            if dig(r2) != cold:
                acc.violation(f'{key}:not-repeatable-after-result-edit', case,
                              f'after the caller edited the result of {o.name}({v[0]}) in place, the identical call on fresh arguments returns something else')
            return
        if mode == 'listified':
            # array_like: a (nested) list with the same numbers is the same input
            pname = case['param']
            base = o.variants()[0]
            cold, _ = _cold(o, seed, base)
            engine.reset_library_state()
            np.random.seed(4242)
            args = o.args(seed, base)
            x = args.get(pname)
            if not (isinstance(x, np.ndarray) and x.ndim >= 1 and x.dtype.kind in 'fiuc' and x.size <= 4096) or pname in o.writes or (o.name, pname) in NOT_ARRAY_LIKE:
                return 'n/a'
            args[pname] = x.tolist()
            r = _result(o, _call(o, args), args)
            if dig(r) != cold:
                acc.violation(f'{key}:list-input:{pname}', case, f'{o.name} with {pname} given as a nested list of the same numbers differs from the ndarray call')
            return
        if mode == 'triple':
            # depth 4 over one parameter: [Vi; Vj; Vl; Vj] ends with what a cold Vj returns (bounded memos evict, and an eviction that
            # drops the wrong entry only shows when an older entry is asked for again)
            vi, vj, vl = (variant_by_name(o, case[k]) for k in ('first', 'second', 'third'))
            cold_j, _ = _cold(o, seed, vj)
            engine.reset_library_state()
            last = None
            for v in (vi, vj, vl, vj):
                np.random.seed(4242)
                a = o.args(seed, v)
                last = _result(o, _call(o, a), a)
            if dig(last) != cold_j:
                acc.violation(f'{key}:depends-on-earlier-calls', case,
                              f'{o.name}({vj[0]}) after the calls ({vi[0]}), ({vj[0]}), ({vl[0]}) differs from the same call on a cold library')
            return
        if mode == 'cross':
            ob = catalogue()[case['then']]
            cold_b, _ = _cold(ob, seed, ob.variants()[0])
            engine.reset_library_state()
            np.random.seed(4242)
            args_a = o.args(seed, o.variants()[0])
            ra = _result(o, _call(o, args_a), args_a)
            keep = dig(ra)
            np.random.seed(4242)
            args_b = ob.args(seed, ob.variants()[0])
            rb = _result(ob, _call(ob, args_b), args_b)
            if dig(rb) != cold_b:
                acc.violation(f'history:{ob.name}:depends-on-previous-call:other-function', case,
                              f'{ob.name} right after {o.name} differs from the same call on a cold library')
            if dig(ra) != keep:
                acc.violation(f'{key}:earlier-result-changed:other-function', case, f'the result of {o.name}, held by the caller, changed when {ob.name} ran')
            return
        if mode == 'positional':
            # the documented positional order (mc/api_defaults.json, from the signatures of the pinned tree): the base call with its
            # arguments passed by position is the base call with keywords
            order = api_defaults().get(o.name, {}).get('positional') or []
            base = variant_by_name(o, case.get('variant', 'base'))
            cold, _ = _cold(o, seed, base)
            engine.reset_library_state()
            np.random.seed(4242)
            args = o.args(seed, base)
            last = max([i for i, (pn, _, _) in enumerate(order) if pn in args], default=-1)
            if last < 1 or any(pn not in [x[0] for x in order] for pn in args):
                return 'n/a'
            # as far down the documented list as the documented defaults allow (a parameter slipped into the middle of a
            # signature shows only when the ones after it are given by position)
            while last + 1 < len(order) and order[last + 1][1] == 'default':
                last += 1
            pos = []
            for pn, kind, dflt in order[:last + 1]:
                if pn in args:
                    pos.append(args[pn])
                elif kind == 'default':
                    pos.append(tuple(dflt) if isinstance(dflt, list) else dflt)
                else:
                    return 'n/a'
            with warnings.catch_warnings():
                warnings.simplefilter('ignore')
                r = o.fn(*pos)
            r = _result(o, r, args)
            if dig(r) != cold:
                acc.violation(f'{key}:positional-arguments', case, f'{o.name} called with its {len(pos)} leading arguments by position (documented order '
                              f'{[x[0] for x in order[:last + 1]]}) differs from the keyword call')
            return
        if mode == 'default':
            # an optional argument given explicitly with its documented default (mc/api_defaults.json, taken from the signatures of
            # the pinned tree) is the call without it
            pname, val = case['param'], case['value']
            val = tuple(val) if isinstance(val, list) else val
            base = o.variants()[0]
            cold, _ = _cold(o, seed, base)
            engine.reset_library_state()
            np.random.seed(4242)
            args = o.args(seed, base)
            if pname in args:
                return 'n/a'
            args[pname] = val
            r = _result(o, _call(o, args), args)
            if dig(r) != cold:
                acc.violation(f'{key}:default:{pname}', case, f'{o.name} with {pname}={val!r} given explicitly (its documented default) differs from the call without it')
            return
        if mode == 'refill':
            p, k = case['param'], case['k']
            vb = variant_by_name(o, f'{p}#{k}')
            cold_b, _ = _cold(o, seed, vb)
            engine.reset_library_state()
            np.random.seed(4242)
            args = o.args(seed, o.variants()[0])
            src = o.alts[p][k](seed)
            pairs = refillable(args[p], src) if p in args else None
            if not pairs:
                return 'n/a'
            _call(o, args)
            for tgt, s_ in pairs:
                tgt[...] = s_
            others = {q: dig(v) for q, v in args.items() if q != p}
            np.random.seed(4242)
            # the other arguments are rebuilt fresh (a call may legitimately consume them); the refilled object is the same object
            if o.writes or o.consumes:
                args2 = o.args(seed, o.variants()[0])
                args2[p] = args[p]
            else:
                args2 = args                        # the very same objects for every argument (a query left them as they were)
            r = _result(o, _call(o, args2), args2)
            if dig(r) != cold_b:
                acc.violation(f'{key}:stale-after-in-place-edit:{p}', case,
                              f'{o.name} called again with the same {p} object, refilled in place, does not return what it returns for that content')
            return
        if mode == 'refused':
            i = case['i']
            p, fac = o.bad[i]
            base = o.variants()[0]
            cold, _ = _cold(o, seed, base)
            # (for the same-objects comparison a Spectrum is compared physically: a refused multi-unit conversion may have applied
            # the units before the refused one, which re-expresses the spectrum without changing it)
            engine.reset_library_state()
            np.random.seed(4242)
            args_c = o.args(seed, base)
            cold_phys = dig_arg(_result(o, _call(o, args_c), args_c))
            engine.reset_library_state()
            np.random.seed(4242)
            err0 = np.geterr()
            args = o.args(seed, base)
            d0 = {k: dig_arg(v) for k, v in args.items()}
            bad_args = dict(args)
            bad_args[p] = fac(seed)
            raised = None
            try:
                _call(o, bad_args)
            except Exception as e:
                raised = type(e).__name__
            acc.cls('history:refused' if raised else 'history:bad-value-accepted')
            if raised:
                ch = [k for k in d0 if k != p and dig_arg(args[k]) != d0[k]]
                if ch:
                    acc.violation(f'{key}:refused-call-changes-argument:{ch[0]}', dict(case, raised=raised),
                                  f'{o.name} refused {p}={_short(bad_args[p])} ({raised}) but changed its argument(s) {ch}')
                    np.seterr(**err0)
                    return
                np.random.seed(4242)
                r = _result(o, _call(o, args), args)
                if dig_arg(r) != cold_phys:
                    acc.violation(f'{key}:after-refused-call:same-arguments', dict(case, raised=raised),
                                  f'after {o.name} refused {p}={_short(bad_args[p])} ({raised}), the base call on the same argument objects differs from a cold call')
                np.random.seed(4242)
                args3 = o.args(seed, base)
                r3 = _result(o, _call(o, args3), args3)
                if dig(r3) != cold:
                    acc.violation(f'{key}:after-refused-call:fresh-arguments', dict(case, raised=raised),
                                  f'after {o.name} refused {p}={_short(bad_args[p])} ({raised}), the base call on fresh arguments differs from a cold call')
            np.seterr(**err0)
            return
        if mode == 'frozen':
            base = o.variants()[0]
            cold, _ = _cold(o, seed, base)
            engine.reset_library_state()
            np.random.seed(4242)
            args = o.args(seed, base)
            for k, v in args.items():
                if k in o.writes:
                    continue
                for a in arrays_in(v):
                    try:
                        a.flags.writeable = False
                    except ValueError:
                        pass
            try:
                r = _result(o, _call(o, args), args)
            except ValueError as e:
                if 'read-only' in str(e):
                    acc.violation(f'{key}:writes-into-argument', case, f'{o.name} on read-only arguments: {e!r}')
                    return
                raise
            if dig(r) != cold:
                acc.violation(f'{key}:read-only-arguments-change-result', case, f'{o.name} on read-only arguments returns something else')
            return
    raise ValueError(mode)


def _short(x):
    s = repr(x)
    return s if len(s) < 60 else s[:57] + '...'


def t_callhist(arg, acc):
    """all scenarios of one operation"""
    seed, name = arg['seed'], arg['op']
    o = catalogue()[name]
    V = o.variants()
    case0 = {'kind': 'histop', 'op': name}
    for v in V:
        chk_case(dict(case0, mode='single', variant=v[0]), acc, seed)
        acc.case(dict(case0, mode='single', variant=v[0]), outcome='single')
    for va in V:
        for vb in V:
            if va is vb and not arg.get('self_pairs', True):
                continue
            acc.transitions += 1
            chk_case(dict(case0, mode='pair', first=va[0], second=vb[0]), acc, seed)
    acc.cls('history:pairs', len(V) * len(V))
    ntr = 0
    for p in sorted(o.alts):
        vals = [V[0]] + [v for v in V if v[1] == p]
        if len(vals) >= 3:
            import itertools as _it
            for vi, vj, vl in _it.permutations(vals[:5], 3):
                chk_case(dict(case0, mode='triple', first=vi[0], second=vj[0], third=vl[0]), acc, seed)
                ntr += 1
    acc.cls('history:triples', ntr)
    for v in V:
        chk_case(dict(case0, mode='edit', variant=v[0]), acc, seed)
    chk_case(dict(case0, mode='frozen'), acc, seed)
    nref = 0
    for p in sorted(o.alts):
        if p in o.norefill:
            continue
        for k in range(len(o.alts[p])):
            if chk_case(dict(case0, mode='refill', param=p, k=k), acc, seed) != 'n/a':
                nref += 1
    acc.cls('history:refills', nref)
    for i in range(len(o.bad)):
        chk_case(dict(case0, mode='refused', i=i), acc, seed)
    if o.name in api_defaults() and api_defaults()[o.name].get('positional'):
        for v in V:
            if chk_case(dict(case0, mode='positional', variant=v[0]), acc, seed) != 'n/a':
                acc.cls('history:positional')
    for pname in sorted(o.base(seed)):
        if chk_case(dict(case0, mode='listified', param=pname), acc, seed) != 'n/a':
            acc.cls('history:list-inputs')
    for pname, val in sorted((api_defaults().get(name, {}).get('defaults') or {}).items()):
        if chk_case(dict(case0, mode='default', param=pname, value=val), acc, seed) != 'n/a':
            acc.cls('history:defaults')
    acc.cls('history:ops')
    acc.states += len(V)
    acc.case(dict(case0, mode='all'), outcome=f'hist-{name}')


def t_cross(arg, acc):
    """every ordered pair of DIFFERENT operations (base variants): cold(B) == [A; B], and A's held result survives B.  Run by the
    "no hidden state" property only."""
    seed = arg['seed']
    cat = catalogue()
    names = sorted(cat)
    a_names = names[arg['shard']::arg['nshard']]
    if arg.get('targets'):
        names = sorted(n for n in names if arg['targets'] in cat[n].props)       # only "then" operations this property is anchored in
    cold = {}
    for nb in names:
        try:
            cold[nb] = _cold(cat[nb], seed, cat[nb].variants()[0])[0]
        except Exception:
            cold[nb] = None
    for na in a_names:
        oa = cat[na]
        for nb in names:
            if nb == na or cold[nb] is None:
                continue
            ob = cat[nb]
            case = {'kind': 'histop', 'op': na, 'mode': 'cross', 'then': nb}
            acc.transitions += 1
            chk_case(case, acc, seed)
    acc.cls('history:cross-pairs', len(a_names) * max(len(names) - 1, 0))


def tasks_for(pid, seed):
    tasks = [('t_callhist', {'seed': seed, 'op': name}) for name, o in sorted(catalogue().items()) if pid in o.props]
    if pid == 'C10':
        tasks += [('t_cross', {'seed': seed, 'shard': k, 'nshard': 8}) for k in range(8)]
    else:
        # any operation of the catalogue first, then one this property is anchored in (state poisoned by another function)
        tasks += [('t_cross', {'seed': seed, 'shard': k, 'nshard': 2, 'targets': pid}) for k in range(2)]
    return tasks


# parameters that are ndarrays in the catalogue but are not documented as array_like (or for which the pinned tree itself does
# not accept a list): excluded from the list-input scenario
NOT_ARRAY_LIKE = {('boundary_slice', 'x'), ('planck_exitance', 'wave'), ('planck_radiance', 'wave'), ('zernike-coords', 'rho'), ('zernike-coords', 'theta'),
                  ('zernike_basis-coords', 'rho'), ('zernike_basis-coords', 'theta')}


_DEF = None


def api_defaults():
    global _DEF
    if _DEF is None:
        import json
        with open(os.path.join(os.path.dirname(os.path.abspath(__file__)), 'api_defaults.json')) as f:
            _DEF = json.load(f)
    return _DEF


_CAT = None


def catalogue():
    global _CAT
    if _CAT is None:
        from . import hist_catalogue
        _CAT = hist_catalogue.build()
    return _CAT
