"""Bounded-exhaustive exploration engine for the lentil property checks.

Two explorers share one accumulator (`Acc`):

* E1 `explore_tree`  -- depth-first walk of a choice tree (ordered axes, each a
  finite menu that may depend on earlier choices); the real code is executed at
  every leaf and compared with a reference model.
* E2 `bfs`           -- explicit-state breadth-first search over event
  histories; every transition calls the real method on real objects, the
  reference model takes the same step, invariants are checked in every state,
  states are de-duplicated on a canonical form.

Nothing here samples.  VERIF_SEED only selects a payload catalogue.
"""
import collections
import hashlib
import json
import multiprocessing as mp
import os
import sys
import time
import traceback

VERIF = os.path.dirname(os.path.dirname(os.path.abspath(__file__)))
LENTIL_SRC = os.path.realpath(os.environ.get('LENTIL_SRC', '/repo'))


def setup_lentil():
    """Import lentil from /repo's working tree (or LENTIL_SRC for scratch copies)."""
    if LENTIL_SRC not in sys.path:
        sys.path.insert(0, LENTIL_SRC)
    import lentil
    got = os.path.realpath(lentil.__file__)
    if not got.startswith(LENTIL_SRC + os.sep):
        raise SystemExit(f'MACHINERY-ERROR: lentil imported from {got}, expected under {LENTIL_SRC}')
    return lentil


def jdefault(o):
    import numpy as np
    import fractions
    if isinstance(o, np.ndarray):
        return o.tolist()
    if isinstance(o, (np.integer,)):
        return int(o)
    if isinstance(o, (np.floating,)):
        return float(o)
    if isinstance(o, (np.bool_,)):
        return bool(o)
    if isinstance(o, complex):
        return [o.real, o.imag]
    if isinstance(o, np.complexfloating):
        return [float(o.real), float(o.imag)]
    if isinstance(o, fractions.Fraction):
        return f'{o.numerator}/{o.denominator}'
    if isinstance(o, (set, frozenset)):
        return sorted(o)
    if isinstance(o, tuple):
        return list(o)
    return repr(o)


def jdump(o):
    return json.dumps(o, sort_keys=True, default=jdefault)


def digest(o):
    return hashlib.blake2b(jdump(o).encode(), digest_size=8).digest()


class StopTask(BaseException):
    """not an Exception: must not be swallowed by the `except Exception` around calls into the library"""
    pass


_KNOWN = None


def _known_keys():
    global _KNOWN
    if _KNOWN is None:
        try:
            with open(os.path.join(VERIF, 'known_findings.json')) as f:
                _KNOWN = {x['key'] for x in json.load(f).get('findings', [])}
        except Exception:
            _KNOWN = set()
    return _KNOWN


class Acc:
    """Mergeable coverage accumulator; every number in the evidence comes from here."""
    MAX_PER_KEY = 3
    MAX_KEYS = 400

    def __init__(self):
        self.states = 0
        self.transitions = 0
        self.evaluations = 0
        self.traces = 0
        self.nontrivial = set()
        self.outcomes = set()
        self.samples = []
        self.viol = {}            # key -> list of (case, msg)
        self.viol_count = 0
        self.classes = collections.Counter()
        self.caps = []
        self.errors = []          # machinery errors (never a silent pass)
        self.memo = {}            # (operation, argument digest) -> result, shared across histories and merged across workers
        self.task = None          # (function name, arg) of the worker task being run: context for history-dependent violations
        self.unknown_viol = 0
        self.budget = None        # set in worker tasks: stop a task after this many non-known violations

    # -- recording -----------------------------------------------------
    def case(self, case, nontrivial=True, outcome=None, traces=1):
        """One leaf / one state: executed on the implementation and compared."""
        self.evaluations += 1
        self.traces += traces
        if nontrivial:
            self.nontrivial.add(digest(case))
        if outcome is not None:
            self.outcomes.add(str(outcome))
        if len(self.samples) < 3:
            self.samples.append(case)

    def cls(self, name, n=1):
        self.classes[name] += n

    def violation(self, key, case, msg):
        self.viol_count += 1
        if key not in _known_keys():
            self.unknown_viol += 1
            if self.budget is not None and self.unknown_viol > self.budget:
                # the property is already decided (violated); do not spend the time budget re-finding it
                self._record(key, case, msg)
                raise StopTask(f'task stopped after {self.unknown_viol} violations')
        self._record(key, case, msg)

    def _record(self, key, case, msg):
        lst = self.viol.get(key)
        if lst is None:
            if len(self.viol) >= self.MAX_KEYS:
                return
            lst = self.viol[key] = []
        if len(lst) < self.MAX_PER_KEY:
            lst.append((case, str(msg)[:2000], self.task))

    def merge(self, o):
        self.states += o.states
        self.transitions += o.transitions
        self.evaluations += o.evaluations
        self.traces += o.traces
        self.nontrivial |= o.nontrivial
        self.outcomes |= o.outcomes
        for s in o.samples:
            if len(self.samples) < 6:
                self.samples.append(s)
        for k, lst in o.viol.items():
            mine = self.viol.setdefault(k, []) if (k in self.viol or len(self.viol) < self.MAX_KEYS) else None
            if mine is not None:
                for it in lst:
                    if len(mine) < self.MAX_PER_KEY:
                        mine.append(it)
        self.viol_count += o.viol_count
        self.classes.update(o.classes)
        self.caps += o.caps
        self.errors += o.errors


# ----------------------------------------------------------------------
# E1: choice tree
# ----------------------------------------------------------------------
def explore_tree(axes, leaf, acc, ctx=None, start=0):
    """axes: list of (name, fn(ctx) -> iterable of values).  Walks the whole tree."""
    ctx = {} if ctx is None else ctx
    n = len(axes)

    def rec(i):
        acc.states += 1
        if i == n:
            leaf(ctx, acc)
            return
        name, fn = axes[i]
        for v in fn(ctx):
            acc.transitions += 1
            ctx[name] = v
            rec(i + 1)
        ctx.pop(name, None)

    rec(start)


def tree_prefixes(axes, k, acc):
    """Enumerate all assignments of the first k axes (counted as states/transitions
    in `acc`); the sub-trees below them are explored by workers with start=k."""
    out = []
    ctx = {}

    def rec(i):
        if i == k:
            out.append(dict(ctx))
            return
        acc.states += 1
        name, fn = axes[i]
        for v in fn(ctx):
            acc.transitions += 1
            ctx[name] = v
            rec(i + 1)
        ctx.pop(name, None)

    rec(0)
    return out


# ----------------------------------------------------------------------
# E2: explicit-state BFS over histories
# ----------------------------------------------------------------------
def bfs(inits, events, build, step, canon, check, depth, acc, clone=None, label=None,
        max_states=None):
    """Explicit-state search.

    inits  : list of JSON-able initial-state descriptors
    events : fn(state_obj) -> list of JSON-able events enabled in that state
    build  : fn(init) -> fresh state object (real lentil objects + model)
    step   : fn(state_obj, event) -> new state object (must not mutate its argument
             unless `clone` is given, in which case the clone is stepped)
    canon  : fn(state_obj) -> hashable canonical form (all fields later events read)
    check  : fn(state_obj, history, acc) -> None; records violations itself
    A state is identified with the history that reaches it: {'init':…, 'events':[…]}.
    """
    seen = set()
    frontier = collections.deque()
    for init in inits:
        st = build(init)
        hist = {'init': init, 'events': []}
        k = canon(st)
        acc.states += 0
        if k in seen:
            continue
        seen.add(k)
        check(st, hist, acc)
        acc.case(hist if label is None else dict(hist, kind=label), nontrivial=False)
        frontier.append((st, hist))
    maxd = 0
    while frontier:
        st, hist = frontier.popleft()
        d = len(hist['events'])
        if d >= depth:
            continue
        for ev in events(st):
            acc.transitions += 1
            base = clone(st) if clone is not None else st
            nxt = step(base, ev)
            h2 = {'init': hist['init'], 'events': hist['events'] + [ev]}
            if label is not None:
                h2['kind'] = label
            check(nxt, h2, acc)
            acc.case(h2, nontrivial=True)
            k = canon(nxt)
            if k not in seen:
                seen.add(k)
                maxd = max(maxd, d + 1)
                if max_states is not None and len(seen) > max_states:
                    acc.caps.append(f'bfs max_states={max_states} hit at depth {d + 1}')
                    acc.states += len(seen)
                    return len(seen), maxd
                frontier.append((nxt, h2))
    acc.states += len(seen)
    return len(seen), maxd


# ----------------------------------------------------------------------
# parallel driver
# ----------------------------------------------------------------------
_WORKER_MODS = {}


def _worker_init():
    os.environ.setdefault('OMP_NUM_THREADS', '1')
    try:
        import resource
        lim = int(os.environ.get('VERIF_AS_LIMIT_GB', '2')) * 2 ** 30
        resource.setrlimit(resource.RLIMIT_AS, (lim, resource.getrlimit(resource.RLIMIT_AS)[1]))   # soft limit only    # a run-away allocation becomes a MemoryError, not a hang
    except Exception:
        pass
    setup_lentil()
    reset_library_state()      # first call takes the import-time snapshot


_MODULE_SNAPSHOT = {}
_RESET_PLAN = {'caches': [], 'containers': [], 'scalars': [], 'calls': 0}
_WARN_FILTERS = None


def _scan_library_state():
    import copy as _copy
    caches, containers, scalars = [], [], []
    for mname, mod in list(sys.modules.items()):
        if mod is None or not (mname == 'lentil' or mname.startswith('lentil.')):
            continue
        for name, val in list(vars(mod).items()):
            if name.startswith('__'):
                continue
            if callable(getattr(val, 'cache_clear', None)):
                caches.append(val)
            elif isinstance(val, (bool, int, float, complex, str, bytes, tuple, frozenset, type(None))) and not isinstance(val, type):
                # immutable module-level globals (flags, signs, counters) are re-bound to their first-seen value
                key = (mname, name)
                if key not in _MODULE_SNAPSHOT:
                    _MODULE_SNAPSHOT[key] = ('scalar', val)
                scalars.append((mod, name, _MODULE_SNAPSHOT[key][1]))
            elif isinstance(val, (dict, list, set)):
                key = (mname, name)
                if key not in _MODULE_SNAPSHOT:
                    try:
                        _MODULE_SNAPSHOT[key] = _copy.deepcopy(val)
                    except Exception:
                        _MODULE_SNAPSHOT[key] = None
                if _MODULE_SNAPSHOT[key] is not None:
                    containers.append((val, _MODULE_SNAPSHOT[key]))
            elif isinstance(val, type) and getattr(val, '__module__', '') == mname:
                # class-level state: mutable containers and immutable scalars declared in a class body are shared by all
                # instances and survive every call, exactly like module globals
                for cname, cval in list(vars(val).items()):
                    if cname.startswith('__'):
                        continue
                    key = (mname, name, cname)
                    if isinstance(cval, (dict, list, set)):
                        if key not in _MODULE_SNAPSHOT:
                            try:
                                _MODULE_SNAPSHOT[key] = _copy.deepcopy(cval)
                            except Exception:
                                _MODULE_SNAPSHOT[key] = None
                        if _MODULE_SNAPSHOT[key] is not None:
                            containers.append((cval, _MODULE_SNAPSHOT[key]))
                    elif isinstance(cval, (bool, int, float, complex, str, bytes, tuple, frozenset, type(None))):
                        if key not in _MODULE_SNAPSHOT:
                            _MODULE_SNAPSHOT[key] = ('scalar', cval)
                        scalars.append((val, cname, _MODULE_SNAPSHOT[key][1]))
                    elif callable(getattr(cval, 'cache_clear', None)):
                        caches.append(cval)
    _RESET_PLAN['caches'], _RESET_PLAN['containers'], _RESET_PLAN['scalars'] = caches, containers, scalars


def reset_library_state():
    """Return every lentil module to its import-time state without re-importing it: module-level mutable containers
    (dict / list / set) are restored to their first-seen content and every functools cache is cleared.  This makes hidden
    process-global state (memo tables, LRU caches) a function of the explored history instead of the worker's past.
    The module scan is repeated every 2000 calls (module globals created later are picked up then)."""
    import copy as _copy
    if _RESET_PLAN['calls'] % 2000 == 0:
        _scan_library_state()
    _RESET_PLAN['calls'] += 1
    global _WARN_FILTERS
    import warnings as _w
    import numpy as _np
    if _WARN_FILTERS is None:
        _WARN_FILTERS = list(_w.filters)
    elif list(_w.filters) != _WARN_FILTERS:
        _w.filters[:] = _WARN_FILTERS          # a leaked warnings.simplefilter(...) is process-global state too
        if hasattr(_w, '_filters_mutated'):
            _w._filters_mutated()
    for mod, name, v0 in _RESET_PLAN['scalars']:
        try:
            if getattr(mod, name, v0) is not v0 and getattr(mod, name, v0) != v0:
                setattr(mod, name, v0)
        except Exception:
            pass
    for c in _RESET_PLAN['caches']:
        c.cache_clear()
    for val, snap in _RESET_PLAN['containers']:
        try:
            if val != snap:
                val.clear()
                if isinstance(val, list):
                    val.extend(_copy.deepcopy(snap))
                else:
                    val.update(_copy.deepcopy(snap))
        except Exception:
            pass


class CaseTimeout(Exception):
    pass


def guarded(fn, seconds=20):
    """Run fn() with a wall-clock limit (SIGALRM); raises CaseTimeout.  Used where a defect may turn into a run-away loop."""
    import signal

    def handler(signum, frame):
        raise CaseTimeout(f'no result after {seconds}s')

    old = signal.signal(signal.SIGALRM, handler)
    signal.setitimer(signal.ITIMER_REAL, seconds)
    try:
        return fn()
    finally:
        signal.setitimer(signal.ITIMER_REAL, 0)
        signal.signal(signal.SIGALRM, old)


def call_task(mod, fname, arg, acc):
    """Run one task function.  An exception that escapes from *library* code (innermost frame under LENTIL_SRC) on an input the
    check treats as legal is a behaviour of the code under test, reported as a violation replayable at task level; an
    exception raised by the checking code itself is a machinery error."""
    try:
        getattr(mod, fname)(arg, acc)
    except StopTask as e:
        acc.caps.append(f'{fname}: {e}')
    except Exception as e:
        tb = traceback.extract_tb(e.__traceback__)
        inner = tb[-1] if tb else None
        lib_frames = [f for f in tb if os.path.realpath(f.filename).startswith(LENTIL_SRC + os.sep)]
        if inner is not None and lib_frames and (os.path.realpath(inner.filename).startswith(LENTIL_SRC + os.sep)
                                                  or 'site-packages' in inner.filename or '/lib/python' in inner.filename):
            where = lib_frames[-1]
            try:
                acc.violation(f'library-raises:{type(e).__name__}:{os.path.basename(where.filename)}:{where.name}',
                              {'kind': 'task', 'task': [fname, arg]},
                              f'{type(e).__name__}: {e} raised inside {os.path.basename(where.filename)}:{where.name} (line {where.lineno}) '
                              f'on an input this check treats as legal; rest of the task skipped')
            except StopTask:
                pass
            acc.caps.append(f'{fname}: aborted by an exception from the library')
        elif inner is not None and ((isinstance(e, (ValueError, IndexError)) and any(t in str(e) for t in ('broadcast', 'shape', 'dimension', 'out of bounds', 'index', 'axis', 'size', 'zero-size', 'empty')))
                                    or (isinstance(e, (TypeError, AttributeError)) and any(t in str(e) for t in ('NoneType', "'list' object has no attribute", "'tuple' object has no attribute", "'float' object has no attribute", "'int' object has no attribute")))):
            # the comparison code itself tripped over the SHAPE of something the library returned (an array of another length
            # than the reference): that is a behaviour of the code under test, not a defect of the harness; reported, replayable
            try:
                acc.violation(f'result-shape:{inner.name}', {'kind': 'task', 'task': [fname, arg]},
                              f'{type(e).__name__}: {e} while comparing a library result with its reference in {inner.name} (line {inner.lineno}): '
                              f'the library returned an array of an unexpected shape; rest of the task skipped')
            except StopTask:
                pass
            acc.caps.append(f'{fname}: aborted, library result of unexpected shape')
        else:
            acc.errors.append(f'task {fname}({jdump(arg)[:300]}) crashed:\n{traceback.format_exc()}')


def _run_task(t):
    modname, fname, arg = t
    acc = Acc()
    acc.budget = int(os.environ.get('VERIF_VIOLATION_BUDGET', '25'))
    acc.task = (fname, arg)
    mod = _WORKER_MODS.get(modname)
    if mod is None:
        import importlib
        mod = _WORKER_MODS[modname] = importlib.import_module(modname)
    call_task(mod, fname, arg, acc)
    return acc


def run_parallel(modname, tasks, acc, procs=None, memo_merge=None):
    """tasks: list of (function name, JSON-able arg).  Deterministic partition.
    memo_merge(acc, part_memo): merges a worker's memo table into the master's and reports conflicts."""
    procs = procs or int(os.environ.get('VERIF_PROCS', '16'))
    items = [(modname, f, a) for f, a in tasks]

    def take(part):
        pm, part.memo = part.memo, {}
        acc.merge(part)
        if memo_merge is not None:
            memo_merge(acc, pm)

    if procs <= 1 or len(items) <= 1:
        _worker_init()
        for it in items:
            take(_run_task(it))
        return
    ctx = mp.get_context('fork')
    with ctx.Pool(min(procs, len(items)), initializer=_worker_init) as pool:
        for part in pool.imap(_run_task, items, chunksize=1):
            take(part)
