"""Command-line runner:  python -m mc.run CNN --tier quick|thorough [--replay f]

exit 0  property held on everything explored (KNOWN-FINDING lines allowed)
exit 1  + 'VIOLATION property=<id> replay=<path>'  otherwise
exit 2  machinery error (never a silent pass)
"""
import argparse
import importlib
import json
import os
import re
import subprocess
import sys
import time

from . import engine, rules_extra
from .engine import Acc, VERIF, jdump


def load_known():
    p = os.path.join(VERIF, 'known_findings.json')
    with open(p) as f:
        return json.load(f)


def slug(s):
    return re.sub(r'[^A-Za-z0-9_.-]+', '_', s)[:80]


# number of payload catalogues a thorough run covers (cheap explorations cover all 8)
THOROUGH_CATALOGUES = {'C01': 2, 'C02': 2, 'C03': 4, 'C04': 2, 'C05': 8, 'C06': 8, 'C07': 1, 'C08': 4, 'C09': 4, 'C10': 1, 'C11': 4, 'C12': 2,
                       'C13': 8, 'C14': 8, 'C15': 4, 'C16': 2, 'C17': 8, 'C18': 4, 'C19': 8, 'C20': 4}


def write_replay(pid, key, case, msg, task=None):
    d = os.path.join(VERIF, 'replays')
    if os.environ.get('VERIF_EVIDENCE_DIR'):
        d = os.path.join(os.environ['VERIF_EVIDENCE_DIR'], 'replays')
    os.makedirs(d, exist_ok=True)
    path = os.path.join(d, f'{pid}-{slug(key)}.json')
    with open(path, 'w') as f:
        rec = {'property': pid, 'key': key, 'case': json.loads(jdump(case)), 'detail': msg}
        if task is not None:
            rec['task'] = json.loads(jdump(list(task)))
        # the payload catalogue the case ran under (thorough tiers run several): replay uses the same one
        seed = None
        if task is not None and isinstance(task[1], dict) and 'seed' in task[1]:
            seed = task[1]['seed']
        rec['seed'] = seed if seed is not None else int(os.environ.get('VERIF_SEED', '0') or 0)
        f.write(json.dumps(rec, indent=1, sort_keys=True))
    return path


def do_replay(mod, path):
    with open(path) as f:
        rec = json.load(f)
    acc = Acc()
    if rec.get('seed') is not None:
        os.environ['VERIF_SEED'] = str(rec['seed'])
    if isinstance(rec.get('case'), dict) and rec['case'].get('kind') == 'task':
        engine.call_task(mod, rec['case']['task'][0], rec['case']['task'][1], acc)
    elif rec.get('task') and os.environ.get('VERIF_REPLAY_TASK'):
        # history-dependent violation: re-run the whole worker task it arose in (deterministic given its argument)
        engine.call_task(mod, rec['task'][0], rec['task'][1], acc)
    else:
        mod.replay(rec['case'], acc)
    keys = sorted(acc.viol)
    for k in keys:
        for case, msg, *_ in acc.viol[k][:1]:
            print(f'REPLAY property={mod.PID} key={k} :: {msg}')
    if acc.errors:
        for e in acc.errors:
            print('MACHINERY-ERROR:', e)
        return 2
    if keys:
        print(f'REPLAY-RESULT violated keys={keys}')
        return 1
    print('REPLAY-RESULT no violation')
    return 0


def main(argv=None):
    ap = argparse.ArgumentParser()
    ap.add_argument('pid')
    ap.add_argument('--tier', default=os.environ.get('VERIF_TIER', 'quick'),
                    choices=['quick', 'thorough'])
    ap.add_argument('--replay')
    ap.add_argument('--procs', type=int, default=None)
    ap.add_argument('--no-confirm', action='store_true')
    a = ap.parse_args(argv)

    pid = a.pid.upper()
    try:
        seed = int(os.environ.get('VERIF_SEED', '0') or 0)
    except ValueError:
        seed = 0
    try:
        import resource
        lim = int(os.environ.get('VERIF_AS_LIMIT_GB', '2')) * 2 ** 30
        resource.setrlimit(resource.RLIMIT_AS, (lim, resource.getrlimit(resource.RLIMIT_AS)[1]))   # soft limit only
    except Exception:
        pass
    engine.setup_lentil()
    engine.reset_library_state()       # import-time snapshot of the library's module-level state
    mod = importlib.import_module(f'mc.props.{pid.lower()}')

    if a.replay:
        return do_replay(mod, a.replay)

    t0 = time.time()
    acc = Acc()
    # thorough tiers run the whole exploration under several payload catalogues (VERIF_SEED, VERIF_SEED+1, ...); the
    # enumeration structure, bounds and oracles are the same for each
    nseeds = THOROUGH_CATALOGUES.get(pid, 1) if a.tier == 'thorough' else 1
    kf_early = {f['key'] for f in load_known().get('findings', []) if f['property'] == pid}
    try:
        for k in range(nseeds):
            info = mod.run(a.tier, seed + k, acc, a.procs) or {}
            if any(key not in kf_early for key in acc.viol):
                break
        if nseeds > 1:
            info.setdefault('bounds', {})['payload_catalogues'] = [seed + k for k in range(nseeds)]
            info['require'] = {c: m for c, m in (info.get('require') or {}).items()}
    except Exception:
        import traceback
        print('MACHINERY-ERROR: the check driver crashed:\n' + traceback.format_exc())
        return 2
    wall = time.time() - t0

    known = load_known()
    kf = {f['key']: f for f in known.get('findings', []) if f['property'] == pid}
    seen_known, new = [], []
    for key in sorted(acc.viol):
        (seen_known if key in kf else new).append(key)

    # non-vacuity / machinery self-checks (only meaningful for a run that was not cut short by violations)
    if not new:
        for need, minimum in (info.get('require') or {}).items():
            if acc.classes.get(need, 0) < minimum:
                acc.errors.append(f'vacuity: class {need!r} count {acc.classes.get(need, 0)} < {minimum}')
    # classes whose count depends on what the library returns (how many Fields a wavefront holds, how many calls were refused,
    # whether a cosmic ray hit): a shortfall is reported and recorded, but it is not evidence against the code under test
    soft = [f'class {need!r} count {acc.classes.get(need, 0)} < {minimum}' for need, minimum in (info.get('expect') or {}).items()
            if acc.classes.get(need, 0) < minimum]
    for sline in soft:
        print(f'[{pid}] NOTE: expected coverage class not reached (library-dependent): {sline}')

    ev = {
        'property_id': pid, 'tier': a.tier, 'seed': seed, 'level': 'model_checking',
        'coverage': {
            'states': acc.states, 'transitions': acc.transitions,
            'traces_validated_against_impl': acc.traces,
            'samples': json.loads(jdump(acc.samples[:4])) or ['<none>'],
            'evaluations': acc.evaluations,
            'distinct_nontrivial': len(acc.nontrivial),
            'rule': (info.get('rule', '') + ' ' + rules_extra.EXTRA.get(pid, '')).strip(),
            'exhaustive': not acc.caps,
            'bounds': info.get('bounds', {}),
            'caps_hit': acc.caps,
            'distinct_outcomes': len(acc.outcomes),
            'outcome_classes': sorted(acc.outcomes)[:40],
            'classes': dict(sorted(acc.classes.items())),
            'known_findings_seen': seen_known,
            'soft_shortfalls': soft,
            'violation_keys': new,
        },
        'assumptions': info.get('assumptions', []),
        'wall_s': round(wall, 2),
        'violations': len(new),
    }
    evdir = os.environ.get('VERIF_EVIDENCE_DIR') or os.path.join(VERIF, 'evidence')
    os.makedirs(evdir, exist_ok=True)
    with open(os.path.join(evdir, f'{pid}.json'), 'w') as f:
        json.dump(ev, f, indent=1, sort_keys=True)
        f.write('\n')

    print(f'[{pid}] tier={a.tier} seed={seed} states={acc.states} transitions={acc.transitions} '
          f'executions={acc.evaluations} traces_validated={acc.traces} '
          f'distinct_nontrivial={len(acc.nontrivial)} distinct_outcomes={len(acc.outcomes)} '
          f'wall={wall:.1f}s')
    if acc.classes:
        print(f'[{pid}] classes: ' + ' '.join(f'{k}={v}' for k, v in sorted(acc.classes.items())))
    if acc.caps:
        print(f'[{pid}] CAPS HIT: {acc.caps}')

    if acc.errors:
        for e in acc.errors[:10]:
            print('MACHINERY-ERROR:', e)
        return 2

    for key in seen_known:
        print(f'KNOWN-FINDING: property={pid} {key} :: {kf[key].get("what", "")}')

    if not new:
        print(f'[{pid}] OK: property held on everything explored')
        return 0

    confirmed, unconfirmed = 0, []
    for i, key in enumerate(new):
        case, msg, task = acc.viol[key][0]
        path = write_replay(pid, key, case, msg, task)
        if i < 6 and not a.no_confirm:
            # re-execute from the replay file in a fresh interpreter; must reproduce
            env = dict(os.environ)
            r = subprocess.run([sys.executable, '-m', 'mc.run', pid, '--replay', path],
                               cwd=VERIF, env=env, capture_output=True, text=True)
            if (r.returncode != 1 or f'key={key}' not in r.stdout) and task is not None:
                # the single case passes on its own: the failure depends on the calls made before it.  Re-run the whole
                # (deterministic) worker task it arose in, in a fresh interpreter.
                env['VERIF_REPLAY_TASK'] = '1'
                r = subprocess.run([sys.executable, '-m', 'mc.run', pid, '--replay', path],
                                   cwd=VERIF, env=env, capture_output=True, text=True)
                if r.returncode == 1 and f'key={key}' in r.stdout:
                    msg = '[depends on the preceding calls of its task; replay with VERIF_REPLAY_TASK=1] ' + msg
            if r.returncode == 1 and f'key={key}' not in r.stdout and 'REPLAY-RESULT violated' in r.stdout:
                # reproduced, but the fresh interpreter files it under another key of this property (which of two
                # histories is "the first" depends on what else ran): still a violation shown on the real code
                msg = '[reproduces under another key in a fresh interpreter] ' + msg
            elif r.returncode != 1 or f'key={key}' not in r.stdout:
                unconfirmed.append(f'violation {key} did not reproduce from {path} '
                                   f'in a fresh interpreter (rc={r.returncode}):\n{r.stdout[-1500:]}{r.stderr[-1500:]}')
                continue
        confirmed += 1
        print(f'VIOLATION property={pid} replay={path}')
        print(f'    key={key} count_total={acc.viol_count} :: {msg[:600]}')
    for u in unconfirmed:
        print(('UNCONFIRMED: ' if confirmed else 'MACHINERY-ERROR: ') + u)
    return 1 if confirmed else 2


if __name__ == '__main__':
    try:
        rc = main()
    except SystemExit:
        raise
    except BaseException:
        import traceback
        print('MACHINERY-ERROR: the check driver crashed:\n' + traceback.format_exc())
        rc = 2
    sys.exit(rc)
