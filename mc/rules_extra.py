"""Facets added to each check after the first generation (seeded-change waves 1-4); appended to the `rule` text of the evidence."""
EXTRA = {
    'C01': 'Also: Fortran / transposed / strided / real / integer inputs, zero and 1e-300 payloads, sizes 16..33 of both parities by the defining sum, '
           'scalar alpha in the inverse, calls after a refused call, every leaf cold and warm through the coordinate cache.',
    'C02': 'Also: a second plane before the propagation (two-plane supports), two-leg round trips pupil -> image -> pupil, masks of several dtypes.',
    'C03': 'Also: amplitudes of both signs, flood illumination (amplitude non-zero outside the mask), per-block tilts whose image chips chain, tilt '
           'metadata arriving before the segmented plane, 2x2 propagation windows.',
    'C04': 'Also: nano-radian tilts, zero payload, dispersive elements used twice and with negative coefficients, split representations, histories of fit / '
           'update / overwrite.',
    'C05': 'Also: signed and three-segment apertures, FFT scratch reuse with an earlier image held, decimal (non-dyadic) physical constants whose reciprocal '
           'lands an ulp off the integer period, normalize_power on int / bool / uint8 / float32 inputs and on inputs scaled by 2^-200..2^200.',
    'C06': 'Also: the same Field used twice, merged with itself, merges of 16..33-sample fields, one-element extents with a parent shape, negative weights.',
    'C07': 'Also: planes with a history (used, rescaled, amplitude reassigned, built without a mask and rescaled, holes inside the support), scalar attributes, '
           'zero-sum OPD, nanometre pixel scales, three-segment chains listed in three orders.',
    'C08': 'Also: empty wavefronts, reused plane objects, refused cells with a pixel-scale mismatch at the same time, Tilt with explicit ptype.',
    'C09': 'Also: two-segment supports, tall / wide anisotropic sampling, zero-sum scratch content, refusals followed by legal calls, earlier results held '
           'while the scratch is reused.',
    'C10': 'Also: a catalogue of 69 public calls probed one by one (arguments untouched, numpy error state and global generator untouched, repeatable after the '
           'caller edited the result in place, identical on read-only arguments); a rescaled plane compared with the rescale of a twin built from its public '
           'attributes; numpy error state and the global generator are part of the explored state.',
    'C11': 'Also: full masks (no zero anywhere), mask values 0.3 / 5 / 1e-17 / -2 through zernike, zernike_basis and zernike_compose, caller-supplied rho / theta '
           'arrays reused across masks, every keyword combination of zernike_basis, cold / warm histories.',
    'C12': 'Also: antialiased masks, global coordinates with condition number 1e5, tiny and mixed-magnitude coefficients, float32 / Fortran / strided inputs, '
           'caller arrays untouched, calls after a refused call.',
    'C13': 'Also: operands of both signs, integer-typed operands, equal numbers in different units, adjacent disjoint operands (gap below either step), reflected '
           'operators, value edits between operations, sampling 70.',
    'C14': 'Also: flux conversions from X-ray to radio wavelengths, regrid-then-convert histories, densities on the right of an operator in another unit, '
           'Blackbody objects (value and sample in every unit pair), Vega-magnitude sampling units, integer-valued densities.',
    'C15': 'Also: crop in every wavelength unit on coarse and 0.002 nm grids, bin in a unit other than the spectrum\'s, integer-typed centres, kinked '
           'preserve-power payloads, negative-dominant trim, read-only queries before and after every resizing event.',
    'C16': 'Also: integer and float32 photon cubes, efficiency Spectrum edited between two uses, gains with exactly-zero coefficients, one-row / one-column / '
           'one-pixel frames, frames whose maximum equals the capacity.',
    'C17': 'Also: integer masks, complex transmissions, micron and nanometre samplings with scale factors 1.004 / 0.9995, the result rescaled again by '
           '{0.5, 1, 2}, refused rescale leaves the plane intact, cold / warm histories, plane used before it is resampled.',
    'C18': 'Also: every rejection / floor(rate) / RMS clause after each of 10 refused calls, dark rates beyond float32, requested RMS 0 and 1e-200..1e150, '
           'signals a hair below zero, integer read-out frames, returned frames edited by the caller, cold / warm histories.',
    'C19': 'Also: integer / uint16 / float32 frames, a 13-sample axis, homogeneity over 2^-70..2^200, frame buffers refilled between two blurs across blur kinds, '
           'physical units down to 3e-12.',
    'C20': 'Also: centroids of signed images, hex_segments cold / warm across ring counts, segment radii 13 and 16.5, rotated rectangles with shifts.',
}

# facets added after waves 8 and 9 (defects that need two conditions at once)
for _k, _v in {
    'C08': ' Reused planes are built with the documented amp= spelling.',
    'C09': ' Tilt metadata on one Field only of a segmented wavefront must be refused.',
    'C10': ' Harness: fit_tilt after a plane of the same shape and another pixel scale; rescale then in-place fit on the result (source untouched); rescale, attribute reassigned, rescale.',
    'C11': ' Weighted masks with caller-supplied coordinates; Fortran-ordered and transposed-view masks.',
    'C13': ' A non-uniform grid whose smallest interval is neither first nor last, with sampling left / right.',
    'C14': ' Every flux-unit triple also on values of both signs with an exact zero.',
    'C15': ' integrate with spectrum and bounds in um / angstrom / m; a piecewise-uniform grid; crop of an integer-typed grid at limits just beside samples.',
    'C17': ' resample between independently given decimal pixel scales (0.3 -> 0.1 ...); rescale, amplitude / OPD reassigned, rescale again.',
    'C19': ' smear at 0 / 90 / 180 / 270 / -90 degrees x oversampling 1..3 in physical units; frames 5x64, 64x5, 9x201 with extents 8 and 12.',
}.items():
    EXTRA[_k] = EXTRA.get(_k, 'Also:') + _v
