"""Generates /verif/MANIFEST.json from the table below:  python3 -m mc.manifest"""
import json
import os

VERIF = os.path.dirname(os.path.dirname(os.path.abspath(__file__)))

E1 = 'bounded-exhaustive choice-tree exploration of the real code against an executable reference model'
E2 = 'explicit-state breadth-first search over call histories on real objects against a reference model'
E3 = 'TLC model checking of a TLA+ model generated from the documented tables, with every model trace replayed against the implementation'

# pid -> (engine, technique, level text, note, design_ref)
CHECKS = {
    'C10': ('E2', E2,
            'Explicit-state search to depth 4/5 over 35 public API events (plane construction with caller arrays incl. a float mask and a '
            '3-D mask, multiply, DFT/FFT propagation with a scratch buffer, fit_tilt copy / in place, OPD updates, rescale, dft2 / idft2 '
            'with repeated shapes, adc, seeded noise models, global-generator use, blurs, charge collection with a spectrum, spectrum '
            'arithmetic / sampling / binning, Zernike fit/remove, insert, utilities) on one shared pool. A state is the history that '
            'reaches it: every successor is rebuilt on fresh objects with cold library caches, so the LRU cache and the global '
            'generator are functions of the history. Oracles: byte digests of every pool item before/after each call (writable and '
            'frozen read-only runs); a memo table (event, argument digests) -> result digest merged over all histories and worker '
            'processes (one key, one result); equal plane states (amplitude, mask, OPD + recorded tilt) propagate to equal fields; '
            'seeded functions leave the global generator untouched.',
            'Trusted: numpy; spectra compared physically; documented in-place targets: insert -> out, scratch=, fit_tilt(inplace) -> plane.',
            'DESIGN.md section 4 C10'),
    'C17': ('E1', E1,
            'Gaussian-apodised amplitude + low-order OPD on even, odd and non-square arrays x monolithic / two-segment masks x 9 scale '
            'factors 0.5..4 x {rescale(s), resample(dx/s)}: exact oracles (pixel scale = dx/s, ceil(n*s) samples, binary mask with its '
            'segment structure, original plane digest unchanged, s = 1 identity to 1e-12, refusals without side effect) and the '
            'interpolation-accuracy claims with stated tolerances (power 1 %, propagated image 2 % relative L2, extent one sample; '
            'measured spline noise on this alphabet is <= 1e-4 / 1e-3).',
            'Bounded numerical statement, not an exact decision, for the interpolation claims; trusted: scipy.ndimage.',
            'DESIGN.md section 4 C17'),
    'C18': ('E1', E1 + ' (complete enumeration of a seed range)',
            'Seeds 0..63/0..511 x frames (4x4, 3x5, 16x16) x levels (0, 1/2, 3, 50, 1e4) x 6 seeded models (Poisson and Gaussian shot '
            'noise, read noise, dark current with FPN, rule-07 dark current, PSD surface error): same seed gives identical draws under '
            'two different global RNG states, the global state is not advanced, all enumerated seeds give distinct draws, support '
            '(non-negative integers, rejections), moments aggregated over all enumerated seeds within 6 sigma, dark without FPN = '
            'floor(rate), PSD zero off-mask with exactly the requested RMS on square and non-square masks; cosmic_rays for every '
            'enumerated global seed x shapes x pixel sizes x integration times: shape, finite, non-negative.',
            'Limit: every seed / every random state is decided for the enumerated range only; moment claims are bounded sample statistics.',
            'DESIGN.md section 4 C18'),
    'C19': ('E1', E1,
            'Images of 6/9 shapes (even, odd, non-square) x dense/smooth payloads and every unit impulse x extents x smear angles: '
            'output shape, non-negativity, identity at zero extent, commutation with every circular translation of the torus, '
            'agreement with the circular convolution with the analytic transfer function (explicit double-sum DFT, not numpy.fft) '
            'wherever that convolution is non-negative and within the bound contributed by the unpaired Nyquist bins, totals, and '
            'equivalence of physical units (scale*p, p, o) with (scale*o, 1, 1).',
            'Trusted: numpy; smear direction (cos a, sin a) in (column, row).',
            'DESIGN.md section 4 C19'),
    'C20': ('E1', E1,
            'pad for every (n0,n1) in 1..6/7 to every (S0,S1) in 1..7/8, 2-D and cubes of depth 1-3 with unique cell ids against index '
            'arithmetic (origin floor(n/2)), grow-then-crop identity, window(); boundary, boundary_slice(pad), slice_offset, subarray '
            'and centroid for all 511 subsets of a 3x3 stencil at every placement; subarray for every size and shift; rebin block '
            'sums; drawn shapes on even/odd/non-square arrays (range, binary, half-turn, mirrors, exact integer translation); '
            'hex_segments for rings 1-3 x gaps {0,1/2,1,2.5} x rotate x radii x drop sets (count, area, non-overlap, border).',
            'Trusted: numpy; hexagon radii avoid pixel centres exactly on a vertex; gap-0 shared-edge overlap is a recorded known finding.',
            'DESIGN.md section 4 C20'),
    'C16': ('E1', E1,
            'collect_charge on cubes of 1-3 slices with every unit impulse (complete by linearity) and a dense payload for scalar, '
            'vector and Spectrum efficiencies in 4 units x wavelengths in 4 units; Bayer collection for every square pattern over '
            '{R,G,B} of size 1 and 2 (84) and a strided/complete set of the 19683 3x3 patterns x images of 1x1..2x2 tiles x oversample '
            '1..4/6 x flatten, against a per-sub-pixel selection pattern[(i//os)%k][(j//os)%k]; adc on a dyadic frame (negatives, == and '
            '> capacity, float and int) x 8 gain forms x 3 capacities x 4 dtypes x warn flag against an exact-Fraction model '
            '(value, dtype, warning iff a pixel exceeds capacity, input untouched) and a monotonicity ladder.',
            'Trusted: numpy; dyadic inputs make every intermediate exact.',
            'DESIGN.md section 4 C16'),
    'C14': ('E1+E2', E1 + '; ' + E2 + ' (Spectrum.to sequences)',
            'Complete enumeration of the 7^3 wavelength-unit name triples (all aliases and case variants) and 3^3 flux-unit triples '
            'for composition, identity, round trip and agreement with an independent table; explicit-state search over all sequences '
            '(depth 4/5, to a fixed point of the de-duplicated state set) of Spectrum.to over the 10 unit names from each of the 16 '
            '(waveunit, valueunit) starts with an independent SI model: same physical spectrum, integral preserved for densities, '
            'values preserved when unit-less, unit-less -> flux refused without side effect; Planck radiance/exitance for all 7x3 unit '
            'pairs x 4 temperatures against a longdouble/expm1 reference, exitance = pi radiance, Wien peak, Stefan-Boltzmann total; '
            'vegaflux consistent over all units for all 12 bands.',
            "Trusted: numpy; the library's own h, c, k; the long aliases are not demanded of Spectrum.to (refusal must be side-effect free).",
            'DESIGN.md section 4 C14'),
    'C15': ('E1+E2', E1 + '; ' + E2 + ' (resizing histories)',
            'integrate on 6 grids x unit-vector and generic values x all sample-point pairs x both rules (linearity, additivity at '
            'sample points and exactness against Fraction integrals for trapz, straight-line exactness for Simpson); bin on 6 centre '
            'sets x both end treatments x both rules x preserve_power x {nm, um} (length, exact bin integrals of a linear spectrum, '
            'non-negativity on every unit impulse, sum = integral over the centre span); explicit-state search to depth 3/4 over 23 '
            'resizing events (crop, trim, pad, append legal/illegal, resample legal/illegal) from 5 start spectra, with the '
            'well-formedness invariants checked after every event including refused ones and crop/trim compared with a list model.',
            'Trusted: numpy/scipy; Simpson judged only where the statement applies (uniform centres).',
            'DESIGN.md section 4 C15'),
    'C13': ('E1', E1,
            'Operand pairs on integer-nm grids (identical, nested, partially overlapping, disjoint, non-uniform; both orders) x 5 '
            'operators x sampling {min,left,right,25} x method {linear,quadratic,cubic} x fill {0,1} x wavelength unit of each operand '
            '{nm,um,m,angstrom}^2, plus density-valued operands: the result grid must be the uniform grid on the union at the '
            'requested sampling and every value must equal the operator applied to a list-of-pairs model (piecewise-linear inside '
            'an operand range, fill outside; splines judged at operand samples); the result is new, both operands are physically '
            'unchanged, add/mul commute, and scalar/list/tuple/ndarray operands act element-wise on the unchanged grid.',
            'Trusted: numpy/scipy interp1d; grid points that coincide with a range end only up to unit-conversion rounding may be '
            'classified either way; numpy.linspace is guarded against > 10^6-point grids (deterministic seam).',
            'DESIGN.md section 4 C13'),
    'C11': ('E1', E1,
            'Index map j = 1..120/1000 against an independent generator of the Noll order (bijection onto the admissible (n,m)); '
            'mode values for j <= 66/120 on a rational node grid against radial polynomials evaluated in exact Fractions times the '
            'azimuthal factor and sqrt(n+1), sqrt(2(n+1)); all 2211/7260 pairs of modes by a Gauss-Legendre x uniform quadrature that '
            'is exact for the degrees involved; |Z| <= 1 un-normalised; default coordinates for every placement of six small masks '
            'on even, odd and non-square arrays with three mask values (origin = Fraction centroid, rho = 1 at the farthest sample, '
            'zero outside, support only).',
            'Trusted: numpy; tolerance is the rounding bound of the factorial sum; either sign of the sine modes accepted.',
            'DESIGN.md section 4 C11'),
    'C12': ('E1', E1,
            'Four masks (disc, off-centre disc on a non-square array, hexagon, two discs) on 16/17-sample arrays x all 63/255 non-empty '
            'subsets of modes 1..6/1..8 in sorted, reversed and every (<= 3) order x unit and generic coefficient vectors x normalise '
            'on/off x default and caller-supplied coordinates: fit(compose(c)) = c; remove equals an independent lstsq projection, '
            'its residual has vanishing coefficients, is idempotent, and a pure-subset OPD goes to zero.',
            'Trusted: numpy.linalg; ill-conditioned bases (cond > 1e8) counted and skipped as the statement allows.',
            'DESIGN.md section 4 C12'),
    'C03': ('E1', E1,
            'Every set partition of each 7-pixel support (bar, L, plus, two blobs) into <= 3/4 blocks - including interleaved segments '
            'whose bounding boxes overlap or coincide - crossed with three plane chains (one pupil; two pupils; two segmented pupils '
            'partitioned differently), with and without fit_tilt, and two propagation settings: field and intensity must equal those '
            'of the monolithic description (and the reference sum) sample by sample, and intensity = |field|^2, which fails exactly '
            'when overlapping contributions are added as intensities. A second sub-tree feeds the cropped sub-arrays and their slice '
            'offsets to dft2(offset=) and to Fields and compares with the whole array.',
            'Trusted: numpy; one-pixel segments are a recorded known finding; supports avoid the array-centre pixel.',
            'DESIGN.md section 4 C03'),
    'C04': ('E1+E2', E1 + '; ' + E2 + ' (orderings of tilt elements, fit/update histories)',
            'Five tilt representations (OPD ramp, Tilt plane after/before the pupil, Wavefront(tilt=), fit_tilt) over pupils, '
            'monolithic and two-segment apertures incl. per-segment tilts, square and per-axis input/output pixel scales, oversample '
            '1..3, output shapes, prop windows, masks and 10 displacements (zero, sub-pixel, 1.6, 4, beyond the output, both signs, '
            'mixed): the propagated field must equal the reference Fraunhofer sum of the OPD-ramp field on every evaluated sample and '
            'the evaluated window must be the prop window displaced by an integer vector within one sample of z*angle*os/du (row +x, '
            'col -y). fit_tilt against an independent least squares per segment (piston kept, recorded angles, OPD+tilt unchanged). '
            'Every permutation of every subset of 5 tilt elements (angular, dispersive 1st/2nd order): displacements add, lie on the '
            'trace at the dispersed arc length, and propagate like the equivalent angular tilt. Every history (<= 3/4) of '
            '{fit, fit in place, add tilt, add bump, overwrite} propagates like one plane with the total OPD.',
            'Trusted: numpy/scipy; reference sum; numeric dispersive roots to 1e-6 relative.',
            'DESIGN.md section 4 C04'),
    'C07': ('E2', E2,
            'Breadth-first search over chains (depth 4/5) of 14 plane kinds (default, pupils with different focal lengths, segmented '
            'with overlapping bounding boxes, scalar amplitude with a mask, OPD-only, smaller array, tilt, image, inconsistent pixel '
            'scale, fit_tilt-ed variants) and two propagations from two initial wavefronts. The model state is a dense complex array '
            'plus metadata and steps by the pointwise phasor rule / the reference Fraunhofer sum; in every reached state: field = '
            'model, field = sum of its Fields, intensity = |field|^2 sample by sample (also where several displaced Fields overlap), '
            'insert with 3 weights into zero / prefilled / larger targets adds weight*intensity and nothing else, wavelength, focal '
            'length, pixel scale, refusal of inconsistent pixel scales with unchanged operands.',
            'Trusted: numpy; fit_tilt residual read back (C04 decides it); ptype table per docs (C08 decides it); histories longer than the depth bound are outside.',
            'DESIGN.md section 4 C07'),
    'C05': ('E1', E1,
            'Every commensurate sampling with independent per-axis periods N in {n..n+4}, oversample factors dividing N, both '
            'propagators: total intensity equals the input power to 1e-10; for every DFT configuration every centred window a x b '
            '(all chains of nested windows) and a chain of nested mask boxes: captured power monotone, non-negative, bounded by the '
            'input; normalize_power targets on real/complex/integer arrays and through propagation.',
            'Trusted: numpy; complex pupil payloads are generic, not adversarial; sizes above 7 outside the bound.',
            'DESIGN.md section 4 C05'),
    'C08': ('E3', E3,
            'The three documentation tables are parsed at check time into a TLA+ module (one named action per plane ptype, per '
            'documented/exported plane class, and Propagate; refusals as TypeError outcomes). TLC checks the documented protocol '
            'itself (type closure, refusals keep the type, propagation only swaps pupil and image) and dumps the labelled graph; '
            'every action sequence of the model up to depth 4/6 from all three initial types is replayed on real lentil objects '
            '(de-duplicated on model node x implementation digest): ptype after each step, TypeError exactly where the model refuses, '
            'refused steps leave wavefront and plane unchanged.',
            'Trusted: TLC 1.8.0, the rst parsers in mc/tlc.py, the docs in the tree under test as the specification. '
            'Rotate/Flip are recorded known findings.',
            'DESIGN.md section 4 C08'),
    'C09': ('E1+E2', E1 + '; ' + E2 + ' (shared scratch histories)',
            'Cross product of pupil shapes/supports, FFT grids of both parities N in {n..n+5} reached through the wavelength '
            '(including wavelengths that differ from the reported one), oversample 1..3, isotropic and per-axis sampling, every '
            'accepted output shape on a stride and six scratch modes (exact advertised size, larger, dirty, NaN margin). Each '
            'leaf is compared with the reference Fraunhofer sum at the reported wavelength and with propagate_dft at that '
            'wavelength; scratch results are compared with the scratch-free call; oversize shapes, undersize scratch and three '
            'kinds of tilt metadata must be refused; every sequence of 2/3 propagations over one shared scratch buffer is replayed.',
            'Trusted: numpy FFT; reference sum; per-axis sampling only where both axes report one wavelength.',
            'DESIGN.md section 4 C09'),
    'C01': ('E1', E1,
            'Full cross product of input shapes 1..5/1..7 (both parities, non-square), output shapes unrelated to the input, '
            'scalar/per-axis/negative/full-period alpha, fractional shifts, integer offsets of either sign, both normalisation '
            'flags and out= modes; dense generic payload plus every unit impulse for small inputs (the transform is linear, so '
            'the impulses pin the whole operator). Every leaf is compared with the defining double sum evaluated with exact '
            'rational phase reduction, run cold and warm through the coordinate cache; the full-period sub-tree checks the inverse '
            'and Parseval for both flags.',
            'Trusted: numpy/BLAS; reference sum in mc/refmodel.py; sizes above 7 are outside the bound.',
            'DESIGN.md section 4 C01'),
    'C02': ('E1', E1,
            'Cross product of pupil shapes (even/odd/non-square), supports (full, off-centre, off-axis block), scalar and per-axis '
            'input/output pixel scales, two (wavelength, focal length) pairs, oversample 1..3, both directions, output shapes, '
            'propagation windows and ~45 masks per output. For every leaf the set of evaluated samples (rendered by independent '
            'index arithmetic) must equal the centred window / mask bounding box, every evaluated sample must equal the unitary '
            'reference Fraunhofer sum looked up by output coordinate on one canonical grid per physical configuration (so all '
            'shape/prop_shape/mask variants are compared on their common samples), zero elsewhere, with the documented metadata.',
            'Trusted: numpy; reference sum; single-pixel apertures (one-element fields) are outside the alphabet.',
            'DESIGN.md section 4 C02'),
    'C06': ('E1+E2', E1 + '; ' + E2 + ' (reduce)',
            'Every ordered pair of small fields (all parities, all offsets of either sign in a square, one-element fields), '
            'every field x target x mode x weight for insert, every ordered sequence of up to 3/4 fields for reduce and every '
            'pair of extents for the extent queries is executed on the real Field/extent code and compared with a '
            'dict-of-coordinates model of the infinite plane. Off-by-one errors here depend only on parity and sign, '
            'which the bounded space covers completely.',
            'Trusted: numpy; payloads are exact small-prime products; one-element operands only at the origin.',
            'DESIGN.md section 4 C06'),
}

NOT_YET = {}


def main():
    props = [json.loads(l) for l in open(os.path.join(VERIF, 'properties.jsonl'))]
    checks = []
    na = []
    for p in props:
        pid = p['id']
        if pid in CHECKS:
            eng, tech, text, note, ref = CHECKS[pid]
            eng = eng + '+E4'
            tech = tech + '; exhaustive pairwise / depth-4 call-history exploration of the anchored public operations (cold vs warm, held results, result edits, in-place refills, refused calls, positional / default / list forms)'
            text = text + ' In addition the history harness (DESIGN.md section 1, E4) explores every ordered pair and depth-4 triple of one-factor variants of the public operations this property is anchored in, and every other catalogue operation followed by one of them, with bit-equality oracles.'
            checks.append({
                'property_id': pid,
                'quick_cmd': f'./check {pid} --tier quick',
                'thorough_cmd': f'./check {pid} --tier thorough',
                'evidence_file': f'/verif/evidence/{pid}.json',
                'replay_cmd_template': f'./check {pid} --replay {{path}}',
                'engine': eng,
                'level_claimed': {'category': 'model_checking', 'text': text, 'design_ref': ref},
                'level_note': note,
                'technique': tech,
            })
        else:
            na.append({'property_id': pid,
                       'reason': NOT_YET.get(pid, 'check not built yet in this session (planned, see DESIGN.md section 4); '
                                                  'the technique applies, nothing is claimed until the check exists')})
    m = {
        'version': 1,
        'setup_cmd': './setup.sh',
        'hooks': {
            'guard': 'LENTIL_VERIF',
            'enable': 'no source hooks are needed: every property is observable through the public API; '
                      './check exports LENTIL_VERIF=1 for uniformity only',
            'baseline_off_cmd': '/verif/baseline.sh',
            'source_commits': [],
            'add_only': True,
        },
        'engines': [
            {'name': 'E1', 'path': 'mc/engine.py', 'serves_properties': sorted(k for k, v in CHECKS.items() if 'E1' in v[0]),
             'kind_free_text': 'choice-tree explorer: exhaustive depth-first enumeration of finite configuration axes, real code executed at every leaf against a reference model, sharded over 16 processes'},
            {'name': 'E2', 'path': 'mc/engine.py', 'serves_properties': sorted(k for k, v in CHECKS.items() if 'E2' in v[0]),
             'kind_free_text': 'explicit-state BFS over event histories on real lentil objects with canonical-state de-duplication and a reference model stepping in lock-step'},
            {'name': 'E3', 'path': 'mc/tlc.py', 'serves_properties': sorted(k for k, v in CHECKS.items() if 'E3' in v[0]),
             'kind_free_text': 'TLA+ model generated from the documentation tables, checked with TLC; the dumped state graph is replayed trace by trace against the implementation'},
            {'name': 'E4', 'path': 'mc/histories.py', 'serves_properties': sorted(CHECKS),
             'kind_free_text': 'history harness: for a catalogue of 95 public operations with one-factor argument variants, exhaustive enumeration of ordered call pairs, depth-4 triples, cross-operation pairs, result edits, in-place refills, refused calls and positional / default / list call forms on the real code, with bit-equality (cold vs warm) oracles and library state reset before every cold arm'},
        ],
        'checks': checks,
        'not_applicable': na,
        'notes': 'All checks: ./check CNN --tier quick|thorough; exit 0 held / 1 VIOLATION / 2 machinery error. '
                 'known_findings.json lists recorded findings and fixed defects.',
    }
    with open(os.path.join(VERIF, 'MANIFEST.json'), 'w') as f:
        json.dump(m, f, indent=1)
        f.write('\n')
    print('wrote MANIFEST.json:', len(checks), 'checks,', len(na), 'not_applicable')


if __name__ == '__main__':
    main()
