#!/bin/bash
# mut.sh <patch.diff> <PID> [PID...] : apply a patch to a scratch copy of /repo (HEAD working tree), run the
# repository's own tests on it, then run the named checks (quick) against the copy.  Never touches /repo.
# env: MUT_TIER=quick|thorough, MUT_SKIP_TESTS=1
patch="$(realpath "$1")"; shift
d=$(mktemp -d /dev/shm/mut.XXXXXX)
trap 'rm -rf "$d"' EXIT
rsync -a --exclude .git /repo/ "$d/"
if ! (cd "$d" && patch -p1 -s < "$patch"); then echo "PATCH-FAILED $patch"; exit 3; fi
if [ -z "$MUT_SKIP_TESTS" ]; then
  t=$(cd "$d" && /venv/bin/python -m pytest -q -x -p no:cacheprovider 2>&1 | tail -1)
  loc=$(cd "$d" && /venv/bin/python -c "import lentil; print(lentil.__file__)")
  echo "TESTS[$loc]: $t"
fi
for pid in "$@"; do
  out=$(cd /verif && LENTIL_SRC="$d" VERIF_EVIDENCE_DIR="$d/evidence" ./check "$pid" --tier "${MUT_TIER:-quick}" 2>&1)
  rc=$?
  echo "CHECK $pid rc=$rc :: $(echo "$out" | grep -E 'VIOLATION|MACHINERY|KNOWN' | head -3 | tr '\n' ' ')"
  echo "$out" | grep -E '^    key=' | head -2
done
