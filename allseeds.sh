#!/bin/bash
# run every quick check under several VERIF_SEED values from fresh processes; print one line per run
cd /verif
tier=${TIER:-quick}
for seed in ${SEEDS:-0 1 2 3 7}; do
  for n in 01 02 03 04 05 06 07 08 09 10 11 12 13 14 15 16 17 18 19 20; do
    t0=$(date +%s.%N)
    out=$(VERIF_SEED=$seed VERIF_EVIDENCE_DIR=/dev/shm/ev_$seed ./check C$n --tier $tier 2>&1); rc=$?
    t1=$(date +%s.%N)
    printf "seed=%s C%s rc=%s %.1fs %s\n" $seed $n $rc $(echo "$t1 - $t0" | bc) "$(echo "$out" | grep -E 'VIOLATION|MACHINERY' | head -2 | tr '\n' ' ' | cut -c1-200)"
  done
done
rm -rf /dev/shm/ev_*
