#!/bin/bash
# Offline setup: nothing to build (pure Python, run with /venv/bin/python against /repo's working tree).
set -e
cd "$(dirname "$0")"
mkdir -p evidence replays
/venv/bin/python -c "import sys; sys.path.insert(0,'/repo'); import lentil, numpy, scipy; print('lentil', lentil.__version__, 'from', lentil.__file__)"
command -v tlc >/dev/null && echo "tlc present" || echo "WARNING: tlc missing (C08 needs it)"
