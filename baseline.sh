#!/bin/bash
# Runs the repository's pinned test-suite with the verification guard OFF.
unset LENTIL_VERIF
cd /repo && exec /venv/bin/python -m pytest -ra -q -p no:cacheprovider --timeout=900 --continue-on-collection-errors "$@"
