#!/bin/bash
# evaluate + keep all wave-9 candidates present: ./w8all.sh C01 C02 ...
for p in "$@"; do for i in 1 2; do
  [ -f /tmp/w9_$p/_seeded/$i/patch.diff ] && echo "/tmp/w9_$p/_seeded/$i w9-$p-$i"
done; done | xargs -P ${PAR:-5} -L 1 bash -c '/verif/seeded_eval.py $0 --keep $1 | tail -1'
