#!/bin/bash
# regress_seeded.sh [glob]  -- re-evaluate every stored seeded change with the checks recorded as detecting it; prints the ones no longer detected
cd /verif
out=${OUT:-/dev/shm/regress_seeded.jsonl}; : > $out
one() {
  d=$1
  pids=$(/venv/bin/python -c "import json,sys; m=json.load(open('$d/meta.json')); print(' '.join(m.get('detected_by') or [m['property']]))")
  /verif/seeded_eval.py $d $pids 2>/dev/null | tail -1 >> ${OUT:-/dev/shm/regress_seeded.jsonl}
}
export -f one
ls -d seeded/${1:-*}/ | grep -v RESULTS | xargs -P 5 -n 1 -I{} bash -c 'one {}'
/venv/bin/python - $out <<'PY'
import json,sys
rows=[json.loads(l) for l in open(sys.argv[1]) if l.strip().startswith('{')]
bad=0
for d in sorted(rows,key=lambda d:d['dir']):
    ck=d.get('checks',{})
    det=[k for k,v in ck.items() if v.get('rc')==1]
    mach=[k for k,v in ck.items() if v.get('rc') not in (0,1)]
    if not det or mach or not d.get('valid'):
        bad+=1; print('ATTENTION', d['dir'], 'valid=',d.get('valid'), 'tests=',d.get('tests'), {k:v.get('rc') for k,v in ck.items()})
print(len(rows),'evaluated;',bad,'need attention')
PY
