#!/bin/bash
# w3ev.sh <PID> <i> [check PIDs...]  -- evaluate one wave-8 candidate, print the essentials
P=$1; I=$2; shift 2
/verif/seeded_eval.py /tmp/w9_$P/_seeded/$I "${@:-$P}" | tail -1 | /venv/bin/python -c "
import sys,json
d=json.loads(sys.stdin.read())
print('$P#$I valid=',d.get('valid'),'tests_rc=',d.get('tests_rc'),{k:(v.get('rc'),(v.get('keys') or v.get('viol') or '')) if isinstance(v,dict) else v for k,v in d.get('checks',{}).items()})
"
