#!/bin/bash
# evaluate every candidate under /tmp/wt_C*/_seeded/* not yet in the results file
res=${1:-/tmp/seeded_results.jsonl}
touch $res
for d in /tmp/wt_C*/_seeded/*; do
  [ -f "$d/patch.diff" ] || continue
  grep -q "\"dir\": \"$d\"" $res && continue
  /verif/seeded_eval.py "$d" 2>/dev/null | tail -1 >> $res
done
/venv/bin/python - "$res" <<'PY'
import json,sys
for l in open(sys.argv[1]):
    try: d=json.loads(l)
    except Exception: continue
    ck=d.get('checks',{})
    print(d['dir'].replace('/tmp/wt_','').replace('/_seeded/','#'), 'valid=%s'%d.get('valid'), 'tests=%s'%d.get('tests','')[:12], 'detected=%s'%d.get('detected_by'), {k:(v['rc'],v['wall_s']) for k,v in ck.items()}, (d.get('patch_tail') or '')[:80])
PY
