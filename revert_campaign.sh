#!/bin/bash
# For every "fix:" commit in /repo: revert it in a scratch copy and run the check of the property it was found by.
cd /verif
mkdir -p mutants/reverts
for c in $(git -C /repo log --format=%h --grep='^fix:'); do
  pid=$(/venv/bin/python - "$c" <<'PY'
import json,sys
c=sys.argv[1]
k=json.load(open('/verif/known_findings.json'))
m=[f['property'] for f in k['fixed'] if f['commit'].startswith(c[:7]) or c.startswith(f['commit'][:7])]
print(' '.join(sorted(set(m))) if m else 'NONE')
PY
)
  git -C /repo diff $c~1 $c -R > mutants/reverts/revert_$c.diff
  echo "== $c [$pid] $(git -C /repo log -1 --format=%s $c | cut -c1-90)"
  if [ "$pid" != "NONE" ]; then MUT_SKIP_TESTS=1 ./mut.sh mutants/reverts/revert_$c.diff $pid 2>&1 | grep -E "^CHECK" | cut -c1-200; fi
done
