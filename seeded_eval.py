#!/venv/bin/python
"""seeded_eval.py <dir with patch.diff, demo.py, meta.json> [PID ...]

Confirms a candidate property-breaking change in a scratch copy of /repo (never /repo itself):
  demo passes on the unchanged tree, patch applies, the repository's 146 tests still pass, demo fails with the patch;
then runs the named checks (default: the property in meta.json) against the scratch copy and reports detection.
Prints one JSON line; with --keep <id> stores the artefacts under /verif/seeded/<id>/.
"""
import json
import os
import shutil
import subprocess
import sys
import tempfile
import time

VERIF = os.path.dirname(os.path.abspath(__file__))
PY = '/venv/bin/python'


def run(cmd, cwd, env=None, timeout=1800):
    e = dict(os.environ)
    e.update(env or {})
    t0 = time.time()
    r = subprocess.run(cmd, cwd=cwd, env=e, capture_output=True, text=True, timeout=timeout)
    return r.returncode, r.stdout + r.stderr, time.time() - t0


def main():
    args = sys.argv[1:]
    keep = None
    tier = os.environ.get('MUT_TIER', 'quick')
    if '--keep' in args:
        i = args.index('--keep'); keep = args[i + 1]; del args[i:i + 2]
    d = os.path.abspath(args[0])
    meta = json.load(open(os.path.join(d, 'meta.json')))
    pids = args[1:] or [meta['property']]
    out = {'dir': d, 'property': meta.get('property'), 'summary': meta.get('summary', '')[:200]}
    scratch = tempfile.mkdtemp(prefix='seed.', dir='/dev/shm')
    try:
        subprocess.run(['rsync', '-a', '--exclude', '.git', '/repo/', scratch + '/'], check=True)
        os.makedirs(os.path.join(scratch, '_demo'), exist_ok=True)
        shutil.copy(os.path.join(d, 'demo.py'), os.path.join(scratch, '_demo', 'demo.py'))
        env = {'LENTIL_SRC': scratch, 'PYTHONDONTWRITEBYTECODE': '1'}
        rc, o, _ = run([PY, '-W', 'ignore', '_demo/demo.py'], scratch, env)
        out['demo_unchanged_rc'] = rc
        if rc != 0:
            out['demo_unchanged_tail'] = o[-400:]
        rc, o, _ = run(['patch', '-p1', '-s', '-i', os.path.join(d, 'patch.diff')], scratch)
        out['patch_rc'] = rc
        if rc != 0:
            out['patch_tail'] = o[-300:]
            print(json.dumps(out)); return
        rc, o, _ = run([PY, '-m', 'pytest', '-q', '-x', '-p', 'no:cacheprovider'], scratch)
        if rc != 0:
            # three of the repository's tests draw from unseeded generators and fail now and then: confirm once
            rc, o, _ = run([PY, '-m', 'pytest', '-q', '-x', '-p', 'no:cacheprovider'], scratch)
        out['tests'] = o.strip().splitlines()[-1] if o.strip() else ''
        out['tests_rc'] = rc
        rc, o, _ = run([PY, '-W', 'ignore', '_demo/demo.py'], scratch, env)
        out['demo_patched_rc'] = rc
        out['valid'] = (out['demo_unchanged_rc'] == 0 and out['tests_rc'] == 0 and out['demo_patched_rc'] != 0)
        out['checks'] = {}
        for pid in pids:
            rc, o, dt = run(['./check', pid, '--tier', tier], VERIF,
                            {'LENTIL_SRC': scratch, 'VERIF_EVIDENCE_DIR': os.path.join(scratch, '_ev')})
            keys = [l.strip()[:160] for l in o.splitlines() if l.strip().startswith('key=')]
            out['checks'][pid] = {'rc': rc, 'wall_s': round(dt, 1), 'keys': keys[:3],
                                  'machinery': [l[:200] for l in o.splitlines() if 'MACHINERY' in l][:2]}
        out['detected_by'] = [p for p, v in out['checks'].items() if v['rc'] == 1]
        if keep:
            dst = os.path.join(VERIF, 'seeded', keep)
            os.makedirs(dst, exist_ok=True)
            shutil.copy(os.path.join(d, 'patch.diff'), dst)
            shutil.copy(os.path.join(d, 'demo.py'), dst)
            m = dict(meta)
            m.update({'confirmed': {'demo_unchanged_rc': out['demo_unchanged_rc'], 'tests': out['tests'],
                                    'demo_patched_rc': out['demo_patched_rc']},
                      'ran': [f'./check {p} --tier {tier} (LENTIL_SRC=scratch copy with the patch)' for p in pids],
                      'detected_by': out['detected_by'], 'check_results': out['checks']})
            json.dump(m, open(os.path.join(dst, 'meta.json'), 'w'), indent=1)
    finally:
        shutil.rmtree(scratch, ignore_errors=True)
    print(json.dumps(out))


if __name__ == '__main__':
    main()
