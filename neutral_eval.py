#!/venv/bin/python
"""neutral_eval.py <dir with patch.diff, equiv.py, meta.json> [PID ...] [--keep id]

A behaviour-preserving change (refactoring) must NOT make any check report a violation.  Confirms in a scratch copy of /repo
that the patch applies, the 146 repository tests pass and equiv.py prints the same output with and without the patch
(numbers compared to a relative 1e-9), then runs the named checks (default: the property in meta.json and C10) against the
scratch copy.  Prints one JSON line; with --keep stores the artefacts under /verif/neutral/<id>/."""
import json, os, re, shutil, subprocess, sys, tempfile, time

VERIF = os.path.dirname(os.path.abspath(__file__))
PY = '/venv/bin/python'


def run(cmd, cwd, env=None, timeout=3600):
    e = dict(os.environ); e.update(env or {})
    r = subprocess.run(cmd, cwd=cwd, env=e, capture_output=True, text=True, timeout=timeout)
    return r.returncode, r.stdout + r.stderr


def same(a, b):
    if a == b:
        return True
    na = re.findall(r'[-+]?\d+\.?\d*(?:[eE][-+]?\d+)?', a); nb = re.findall(r'[-+]?\d+\.?\d*(?:[eE][-+]?\d+)?', b)
    if len(na) != len(nb) or re.sub(r'[-+]?\d+\.?\d*(?:[eE][-+]?\d+)?', '#', a) != re.sub(r'[-+]?\d+\.?\d*(?:[eE][-+]?\d+)?', '#', b):
        return False
    for x, y in zip(na, nb):
        x, y = float(x), float(y)
        if abs(x - y) > 1e-9 * max(abs(x), abs(y)) + 1e-300:
            return False
    return True


def main():
    args = sys.argv[1:]
    keep = None
    checks_only = '--checks-only' in args
    if checks_only:
        args.remove('--checks-only')
    if '--keep' in args:
        i = args.index('--keep'); keep = args[i + 1]; del args[i:i + 2]
    d = os.path.abspath(args[0])
    meta = json.load(open(os.path.join(d, 'meta.json')))
    pids = args[1:] or sorted({meta['property'], 'C10'})
    out = {'dir': d, 'property': meta.get('property'), 'summary': meta.get('summary', '')[:200]}
    scratch = tempfile.mkdtemp(prefix='neutral.', dir='/dev/shm')
    try:
        subprocess.run(['rsync', '-a', '--exclude', '.git', '/repo/', scratch + '/'], check=True)
        env = {'LENTIL_SRC': scratch, 'PYTHONDONTWRITEBYTECODE': '1', 'PYTHONHASHSEED': '0'}
        shutil.copy(os.path.join(d, 'equiv.py'), os.path.join(scratch, '_equiv.py'))
        rc0, o0 = (0, '') if checks_only else run([PY, '-W', 'ignore', '_equiv.py'], scratch, env)
        rc, o = run(['patch', '-p1', '-s', '-i', os.path.join(d, 'patch.diff')], scratch)
        out['patch_rc'] = rc
        if rc != 0:
            out['patch_tail'] = o[-300:]; print(json.dumps(out)); return
        if not checks_only:
            rc, o = run([PY, '-m', 'pytest', '-q', '-x', '-p', 'no:cacheprovider'], scratch)
            if rc != 0:
                rc, o = run([PY, '-m', 'pytest', '-q', '-x', '-p', 'no:cacheprovider'], scratch)
            out['tests'] = o.strip().splitlines()[-1] if o.strip() else ''
            out['tests_rc'] = rc
            rc1, o1 = run([PY, '-W', 'ignore', '_equiv.py'], scratch, env)
            out['equiv_rc'] = (rc0, rc1)
            out['equiv_same'] = rc0 == 0 and rc1 == 0 and same(o0.strip(), o1.strip())
        out['checks'] = {}
        for pid in pids:
            t0 = time.time()
            rc, o = run([os.path.join(VERIF, 'check'), pid, '--tier', 'quick'], VERIF, dict(env, VERIF_EVIDENCE_DIR=os.path.join(scratch, '_evidence')))
            keys = [x.strip()[:220] for x in o.splitlines() if x.strip().startswith('key=')][:4]
            mach = [x.strip()[:200] for x in o.splitlines() if 'MACHINERY' in x][:2]
            out['checks'][pid] = {'rc': rc, 'wall_s': round(time.time() - t0, 1), 'keys': keys, 'machinery': mach}
        out['alarm'] = [p for p, v in out['checks'].items() if v['rc'] != 0]
        if keep:
            dst = os.path.join(VERIF, 'neutral', keep)
            os.makedirs(dst, exist_ok=True)
            for f in ('patch.diff', 'equiv.py'):
                if os.path.abspath(os.path.join(d, f)) != os.path.abspath(os.path.join(dst, f)):
                    shutil.copy(os.path.join(d, f), os.path.join(dst, f))
            if checks_only:      # further checks against an already confirmed change: merge
                cr = dict(meta.get('check_results', {})); cr.update(out['checks'])
                meta.update({'check_results': cr, 'alarm': sorted(p for p, v in cr.items() if v['rc'] != 0)})
            else:
                meta.update({'confirmed': {'tests': out['tests'], 'equiv_same': out['equiv_same']}, 'check_results': out['checks'], 'alarm': out['alarm']})
            json.dump(meta, open(os.path.join(dst, 'meta.json'), 'w'), indent=1)
        print(json.dumps(out))
    finally:
        shutil.rmtree(scratch, ignore_errors=True)


if __name__ == '__main__':
    main()
