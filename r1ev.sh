#!/bin/bash
# evaluate behaviour-preserving / out-of-statement changes of a wave: WAVE=r1 ./r1ev.sh C01 C05 ...
# (each change is stored under /verif/neutral/<wave>-<pid>-<i>/ with the verdict of neutral_eval.py)
W=${WAVE:-r1}; P=${PAR:-4}
mkdir -p /verif/neutral
for p in "$@"; do for i in 1 2 3; do
  d=/tmp/${W}_$p/_neutral/$i
  [ -f $d/patch.diff ] || continue
  echo "$d $W-$p-$i"
done; done | xargs -P $P -L 1 bash -c '/verif/neutral_eval.py $0 --keep $1'
