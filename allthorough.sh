#!/bin/bash
# runs every thorough tier once (evidence redirected so that committed quick evidence is not overwritten), prints rc and wall time
cd /verif
out=${OUT:-/dev/shm/thorough_evidence}; mkdir -p $out
for n in $(seq -w 1 20); do
  P=C$n
  t0=$(date +%s)
  VERIF_EVIDENCE_DIR=$out ./check $P --tier thorough > $out/$P.log 2>&1
  rc=$?
  echo "$P rc=$rc $(( $(date +%s) - t0 ))s $(grep -E 'VIOLATION|MACHINERY' $out/$P.log | head -2 | tr '\n' ' ' | cut -c1-200)"
done
